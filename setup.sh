#!/bin/bash
# Builds /verif/.venv: an overlay on /venv (the repository's interpreter and dependencies)
# plus z3-solver and cvc5 from the offline wheelhouse.  Idempotent.
set -e
cd "$(dirname "$0")"
V=/verif/.venv
if [ ! -x "$V/bin/python" ] || ! "$V/bin/python" -c "import z3, numpy" >/dev/null 2>&1; then
  rm -rf "$V"
  /venv/bin/python -m venv "$V"
  SP=$("$V/bin/python" -c "import site; print(site.getsitepackages()[0])")
  printf "import site; site.addsitedir('/venv/lib/python3.12/site-packages')\n" > "$SP/_venv_overlay.pth"
  PIP_NO_INDEX=1 "$V/bin/pip" install -q --no-index --find-links /opt/veriftools/wheels z3-solver cvc5 >/dev/null 2>&1 || \
  PIP_NO_INDEX=1 "$V/bin/pip" install -q --no-index --find-links /opt/veriftools/wheels z3-solver
fi
"$V/bin/python" -c "import z3, numpy; print('verif venv ok: z3', z3.get_version_string())"
