"""Shape-level numpy shim for DynamicNumpyArray (C18): an array is (length, row function); rows are integer ids.
Lengths, indices and slice bounds may be symbolic integers.  numpy's rules for negative indices, slice clamping,
out-of-range indexing (IndexError) and shape mismatch on assignment (ValueError) are written out with If-terms."""
import builtins

import z3

from . import symex as sx


def _i(x):
    return sx.int_term(x) if not isinstance(x, int) else z3.IntVal(x)


def ite(c, a, b):
    return sx.ite(c, a, b)


class ShArr:
    """rows: python function index(term or int) -> SymInt/int row id"""

    def __init__(self, n, rows):
        self.n = n
        self.rows = rows

    @property
    def shape(self):
        return (self.n, 2)

    def __len__(self):
        raise TypeError('use the stubbed len()')

    def _norm_index(self, i):
        n = self.n
        if bool(i < 0):
            i = i + n
        if bool(i < 0) or bool(i >= n):
            raise IndexError('index out of bounds (numpy)')
        return i

    def _norm_slice(self, s):
        n = self.n
        if s.step is not None and s.step != 1:
            raise NotImplementedError('step')

        def clamp(v, default):
            if v is None:
                return default
            if bool(v < 0):
                v = v + n
                if bool(v < 0):
                    v = 0
            elif bool(v > n):
                v = n
            return v
        start = clamp(s.start, 0)
        stop = clamp(s.stop, n)
        if bool(stop < start):
            stop = start
        return start, stop

    def __getitem__(self, i):
        if isinstance(i, slice):
            start, stop = self._norm_slice(i)
            rows = self.rows
            return ShArr(stop - start, lambda k, rows=rows, start=start: rows(k + start))
        i = self._norm_index(i)
        return self.rows(i)

    def __setitem__(self, i, item):
        old = self.rows
        if isinstance(i, slice):
            start, stop = self._norm_slice(i)
            ln = stop - start
            m = slen(item)
            if not bool(m == ln):
                if not bool(m == 1):
                    raise ValueError('could not broadcast input array (numpy)')
                irows = lambda k: item_rows(item)(0)
            else:
                irows = item_rows(item)
            self.rows = lambda k, old=old, start=start, stop=stop, irows=irows: ite(_and(k >= start, k < stop), irows(k - start), old(k))
            return
        i = self._norm_index(i)
        self.rows = lambda k, old=old, i=i, item=item: ite(k == i, item, old(k))


def _and(a, b):
    if isinstance(a, bool):
        return b if a else False
    if isinstance(b, bool):
        return a if b else False
    return a & b


class Items:
    """a batch of m rows (ids base, base+1, ...) with a possibly symbolic length"""

    def __init__(self, m, base):
        self.m = m
        self.base = base

    def __getitem__(self, key):
        # contiguous slice of the batch with python's rules (negative bounds count from the end, bounds clamp); comparisons on
        # symbolic bounds split the path
        if isinstance(key, slice) and key.step is None:
            m = self.m

            def norm(v, default):
                if v is None:
                    return default
                if v < 0:
                    v = v + m
                    return v if v > 0 else 0
                return v if v < m else m
            start = norm(key.start, 0)
            stop = norm(key.stop, m)
            n = stop - start
            if n < 0:
                n = 0
            return Items(n, self.base + start)
        raise NotImplementedError('batch indexing %r' % (key,))


def item_rows(item):
    if isinstance(item, ShArr):
        return item.rows
    if isinstance(item, Items):
        return lambda k: item.base + k
    raise TypeError(type(item))


def slen(x):
    if isinstance(x, ShArr):
        return x.n
    if isinstance(x, Items):
        return x.m
    return builtins.len(x)


class ShapeNP:
    def zeros(self, shape, *a, **k):
        n = shape[0] if isinstance(shape, (tuple, list)) else shape
        return ShArr(n, lambda k: 0)

    def concatenate(self, arrs, axis=0):
        a, b = arrs
        return ShArr(a.n + b.n, lambda k, a=a, b=b: ite(k < a.n, a.rows(k), b.rows(k - a.n)))

    def delete(self, arr, index, axis=None):
        n = arr.n
        if bool(index < 0):
            index = index + n
        if bool(index < 0) or bool(index >= n):
            raise IndexError('index out of bounds for np.delete')
        return ShArr(n - 1, lambda k, arr=arr, index=index: ite(k < index, arr.rows(k), arr.rows(k + 1)))


def np_shift(arr, num, fill_value=0):
    # only negative shifts are used by DynamicNumpyArray (drop the oldest rows)
    k0 = -num
    return ShArr(arr.n, lambda k, arr=arr, k0=k0: ite(k < arr.n - k0, arr.rows(k + k0), 0))


def pint(x, *a):
    if isinstance(x, sx.SymInt):
        return x
    if isinstance(x, sx.SymReal):
        return sx.sym_floor(x) if bool(x >= 0) else -sx.sym_floor(-x)
    return builtins.int(x, *a)
