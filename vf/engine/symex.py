"""SYMEX - path-exploring symbolic executor for Python code as run by CPython.

Values are proxies (SymReal / SymInt / SymBool) that build z3 terms; the only place a path
splits is ``__bool__`` (and a few helpers that call ``branch`` directly).  Paths are explored
depth-first by decision-prefix re-execution, in parallel worker processes.

Nothing in here knows about jesse.
"""
import math
import os
import sys
import time
import traceback
from fractions import Fraction

import numpy as _np
import z3

# ----------------------------------------------------------------------------------------------
# exceptions


class PathAbort(BaseException):
    """An ``assume`` turned out to be unsatisfiable on this path (BaseException: must not be
    swallowed by ``except Exception`` in the code under test)."""


class PathLimit(BaseException):
    """per-path decision limit hit"""


class Concretization(Exception):
    """The code under test asked a proxy for a concrete value (float(), int(), index)."""


# ----------------------------------------------------------------------------------------------
# current path

_CUR = None


def cur():
    return _CUR


def _q(x):
    """exact rational of a python/numpy number as a z3 Real numeral"""
    if isinstance(x, (bool, _np.bool_)):
        return z3.RealVal(int(x))
    if isinstance(x, (int, _np.integer)):
        return z3.RealVal(int(x))
    fr = Fraction(float(x))
    return z3.RealVal(str(fr.numerator) + '/' + str(fr.denominator)) if fr.denominator != 1 else z3.RealVal(fr.numerator)


def is_sym(x):
    return isinstance(x, (SymReal, SymInt, SymBool))


def is_num(x):
    return isinstance(x, (int, float, _np.integer, _np.floating, bool, _np.bool_))


def _isnan(x):
    return isinstance(x, (float, _np.floating)) and x != x


def _isinf(x):
    return isinstance(x, (float, _np.floating)) and (x == math.inf or x == -math.inf)


def real_term(x):
    """z3 Real term for a proxy or a concrete finite number"""
    if isinstance(x, SymReal):
        return x.t
    if isinstance(x, SymInt):
        return z3.ToReal(x.t)
    if isinstance(x, SymBool):
        return z3.If(x.t, z3.RealVal(1), z3.RealVal(0))
    if is_num(x):
        return _q(x)
    raise TypeError('no real term for %r' % (type(x),))


def int_term(x):
    if isinstance(x, SymInt):
        return x.t
    if isinstance(x, SymBool):
        return z3.If(x.t, z3.IntVal(1), z3.IntVal(0))
    if isinstance(x, (int, _np.integer, bool, _np.bool_)):
        return z3.IntVal(int(x))
    raise TypeError('no int term for %r' % (type(x),))


def bool_term(x):
    if isinstance(x, SymBool):
        return x.t
    if isinstance(x, (bool, _np.bool_)):
        return z3.BoolVal(bool(x))
    if isinstance(x, (SymReal, SymInt)):
        return x.t != 0
    if is_num(x):
        return z3.BoolVal(bool(x))
    if z3.is_bool(x):
        return x
    raise TypeError('no bool term for %r' % (type(x),))


def term(x):
    """z3 term (Int for ints, Real otherwise)"""
    if isinstance(x, (SymReal, SymInt, SymBool)):
        return x.t
    if isinstance(x, (bool, _np.bool_)):
        return z3.BoolVal(bool(x))
    if isinstance(x, (int, _np.integer)):
        return z3.IntVal(int(x))
    return _q(x)


# ----------------------------------------------------------------------------------------------
# proxies


class SymBool:
    __slots__ = ('t',)
    __array_priority__ = 1000

    def __init__(self, t):
        self.t = t

    def __deepcopy__(self, memo):
        return self

    def __copy__(self):
        return self

    def __bool__(self):
        return _CUR.branch(self.t)

    def __and__(self, o):
        if isinstance(o, _np.ndarray):
            return NotImplemented
        return mkbool(z3.And(self.t, bool_term(o)))

    __rand__ = __and__

    def __or__(self, o):
        if isinstance(o, _np.ndarray):
            return NotImplemented
        return mkbool(z3.Or(self.t, bool_term(o)))

    __ror__ = __or__

    def __xor__(self, o):
        return mkbool(z3.Xor(self.t, bool_term(o)))

    __rxor__ = __xor__

    def __invert__(self):
        return mkbool(z3.Not(self.t))

    def __eq__(self, o):
        if isinstance(o, (SymBool, bool, _np.bool_)):
            return mkbool(self.t == bool_term(o))
        if is_num(o) or isinstance(o, (SymReal, SymInt)):
            return SymInt(z3.If(self.t, z3.IntVal(1), z3.IntVal(0))) == o
        return False

    def __ne__(self, o):
        r = self.__eq__(o)
        if isinstance(r, SymBool):
            return mkbool(z3.Not(r.t))
        return not r

    def __hash__(self):
        return hash(self.t)

    def _asint(self):
        return SymInt(z3.If(self.t, z3.IntVal(1), z3.IntVal(0)))

    def __add__(self, o):
        return self._asint() + o

    __radd__ = __add__

    def __mul__(self, o):
        return self._asint() * o

    __rmul__ = __mul__

    def __sub__(self, o):
        return self._asint() - o

    def __rsub__(self, o):
        return o - self._asint()

    def __int__(self):
        return int(bool(self))

    def __index__(self):
        return int(bool(self))

    def __float__(self):
        return float(bool(self))

    def __repr__(self):
        return '<SymBool>'

    __str__ = __repr__

    def __format__(self, spec):
        return '<SymBool>'


def mkbool(t):
    """SymBool, or a plain bool when the term is a literal"""
    if z3.is_true(t):
        return True
    if z3.is_false(t):
        return False
    return SymBool(t)


def _cmp(a, b, op):
    """comparison of a proxy with anything"""
    if isinstance(b, _np.ndarray):
        out = _np.empty(b.shape, dtype=object)
        fo, fi = out.reshape(-1), b.reshape(-1)
        for i in range(fi.size):
            fo[i] = _cmp(a, fi[i], op)
        return out
    if _isnan(b):
        return op == '!='
    if _isinf(b):
        pos = b > 0
        return {'<': pos, '<=': pos, '>': not pos, '>=': not pos, '==': False, '!=': True}[op]
    if not (is_sym(b) or is_num(b)):
        if op == '==':
            return False
        if op == '!=':
            return True
        return NotImplemented
    if isinstance(a, SymInt) and (isinstance(b, (SymInt, SymBool, int, _np.integer, bool, _np.bool_))):
        x, y = a.t, int_term(b)
    else:
        x, y = real_term(a), real_term(b)
    if op == '<':
        t = x < y
    elif op == '<=':
        t = x <= y
    elif op == '>':
        t = x > y
    elif op == '>=':
        t = x >= y
    elif op == '==':
        t = x == y
    else:
        t = x != y
    return mkbool(z3.simplify(t)) if z3.is_bool(t) else t


class _SymNum:
    __slots__ = ()
    __array_priority__ = 1000

    def __deepcopy__(self, memo):
        return self

    def __copy__(self):
        return self

    def __lt__(self, o):
        return _cmp(self, o, '<')

    def __le__(self, o):
        return _cmp(self, o, '<=')

    def __gt__(self, o):
        return _cmp(self, o, '>')

    def __ge__(self, o):
        return _cmp(self, o, '>=')

    def __eq__(self, o):
        return _cmp(self, o, '==')

    def __ne__(self, o):
        return _cmp(self, o, '!=')

    def __hash__(self):
        return hash(self.t)

    def __bool__(self):
        return _CUR.branch(self.t != 0)

    def __pos__(self):
        return self

    def __repr__(self):
        return '<%s>' % type(self).__name__

    __str__ = __repr__

    def __format__(self, spec):
        return '<%s>' % type(self).__name__

    def __float__(self):
        raise Concretization('float() of a symbolic value')

    def __int__(self):
        raise Concretization('int() of a symbolic value')

    def __complex__(self):
        raise Concretization('complex() of a symbolic value')

    def __abs__(self):
        if _CUR is not None and _CUR.split_abs:
            return -self if (self < 0) else self
        return type(self)(z3.If(self.t >= 0, self.t, -self.t), *self._extra())

    def _extra(self):
        return ()

    def __neg__(self):
        return type(self)(-self.t, *self._extra())

    def sqrt(self):  # used by numpy object loops (np.sqrt(objarr) calls .sqrt())
        return usqrt(self)

    def conjugate(self):
        return self

    def item(self):
        return self


_OPS = {'+': lambda a, b: a + b, '-': lambda a, b: a - b, '*': lambda a, b: a * b, '/': lambda a, b: a / b}


def _elementwise(sym, arr, op, swapped):
    """proxy (op) numpy array -> object array, element by element (numpy would do the same for an object operand)"""
    f = _OPS[op]
    out = _np.empty(arr.shape, dtype=object)
    flat_o = out.reshape(-1)
    flat_i = arr.reshape(-1)
    for i in range(flat_i.size):
        e = flat_i[i]
        flat_o[i] = f(e, sym) if swapped else f(sym, e)
    return out


def _special(a, b, op, swapped):
    """arithmetic of proxy a with a nan/inf float b (numpy semantics); op in + - * /"""
    if _isnan(b):
        return _np.float64('nan')
    # infinite b
    if op == '+':
        return _np.float64(b)
    if op == '-':
        return _np.float64(b) if swapped else _np.float64(-b)
    # * and / need the sign of a
    if a == 0:
        if op == '*':
            return _np.float64('nan')
        return _np.float64(0.0) if not swapped else _np.float64('nan')  # 0/inf = 0 ; inf/0 -> nan-ish (kept nan)
    pos = bool(a > 0)
    if op == '*':
        return _np.float64(b if pos else -b)
    if not swapped:  # a / inf
        return _np.float64(0.0)
    return _np.float64(b if pos else -b)  # inf / a


class SymReal(_SymNum):
    """a finite real number (python float or numpy float64 in a concrete run).
    npf: True if the concrete counterpart would be a numpy float64 (division by zero -> nan/inf,
    not ZeroDivisionError)."""
    __slots__ = ('t', 'npf')

    def __init__(self, t, npf=False):
        self.t = t
        self.npf = npf

    def _extra(self):
        return (self.npf,)

    @staticmethod
    def _npf_of(o):
        if isinstance(o, SymReal):
            return o.npf
        return isinstance(o, (_np.floating, _np.integer))

    def _bin(self, o, op, swapped=False):
        if isinstance(o, _np.ndarray):
            return _elementwise(self, o, op, swapped)
        if isinstance(o, (float, _np.floating)) and (o != o or o in (math.inf, -math.inf)):
            return _special(self, o, op, swapped)
        if not (is_sym(o) or is_num(o)):
            return NotImplemented
        x, y = self.t, real_term(o)
        npf = self.npf or self._npf_of(o)
        if swapped:
            x, y = y, x
        if op == '+':
            return SymReal(x + y, npf)
        if op == '-':
            return SymReal(x - y, npf)
        if op == '*':
            return SymReal(x * y, npf)
        if op == '/':
            return _div(x, y, npf)
        raise AssertionError(op)

    def __add__(self, o):
        return self._bin(o, '+')

    def __radd__(self, o):
        return self._bin(o, '+', True)

    def __sub__(self, o):
        return self._bin(o, '-')

    def __rsub__(self, o):
        return self._bin(o, '-', True)

    def __mul__(self, o):
        return self._bin(o, '*')

    def __rmul__(self, o):
        return self._bin(o, '*', True)

    def __truediv__(self, o):
        return self._bin(o, '/')

    def __rtruediv__(self, o):
        return self._bin(o, '/', True)

    def __floordiv__(self, o):
        if isinstance(o, _np.ndarray):
            return NotImplemented
        r = self / o
        return sym_floor(r, as_real=True)

    def __rfloordiv__(self, o):
        r = o / self
        return sym_floor(r, as_real=True)

    def __mod__(self, o):
        if isinstance(o, _np.ndarray):
            return NotImplemented
        return self - sym_floor(self / o, as_real=True) * o

    def __rmod__(self, o):
        return o - sym_floor(o / self, as_real=True) * self

    def __pow__(self, o):
        return _pow(self, o)

    def __rpow__(self, o):
        return _pow(o, self)

    def __round__(self, n=None):
        return sym_round(self, n)

    def __floor__(self):
        return sym_floor(self)

    def __ceil__(self):
        return -sym_floor(-self)

    def __trunc__(self):
        return sym_floor(self) if (self >= 0) else -sym_floor(-self)

    def is_integer(self):
        return mkbool(z3.IsInt(self.t))


def _div(x, y, npf):
    """x / y over reals with python / numpy division-by-zero semantics"""
    ys = z3.simplify(y)
    if z3.is_rational_value(ys) or z3.is_int_value(ys):
        if ys.as_fraction() != 0:
            return SymReal(x / ys, npf)
        zero = True
    else:
        zero = _CUR.branch(ys == 0)
    if zero:
        if not npf:
            raise ZeroDivisionError('float division by zero')
        if _CUR.branch(x == 0):
            return _np.float64('nan')
        return _np.float64('inf') if _CUR.branch(x > 0) else _np.float64('-inf')
    return SymReal(x / y, npf)


class RelaxReal(SymReal):
    """sound relaxation of binary64: every arithmetic operation returns exact*(1+d) with a fresh |d| <= 2^-53 (valid while results are
    normal doubles).  Values produced by jesse's decimal helpers are exact (the stubs build them without a delta)."""
    __slots__ = ()
    counter = [0]
    EPS = 2.0 ** -53

    def _bin(self, o, op, swapped=False):
        r = SymReal._bin(self, o, op, swapped)
        if isinstance(r, SymReal):
            RelaxReal.counter[0] += 1
            d = z3.Real('delta!%d' % RelaxReal.counter[0])
            c = cur()
            c.solver.add(d >= -_q(RelaxReal.EPS), d <= _q(RelaxReal.EPS))
            c.model = None
            return RelaxReal(r.t * (1 + d), r.npf)
        return r

    def _extra(self):
        return (self.npf,)


def relax(x):
    """the relaxed-float view of a symbolic input (plain numbers are returned unchanged: a concrete run uses real floats)"""
    if isinstance(x, SymReal) and not isinstance(x, RelaxReal):
        return RelaxReal(x.t, x.npf)
    return x


class SymInt(_SymNum):
    __slots__ = ('t',)

    def __init__(self, t):
        self.t = t

    def _bin(self, o, op, swapped=False):
        if isinstance(o, _np.ndarray):
            return _elementwise(self, o, op, swapped)
        if isinstance(o, (SymInt, SymBool, int, _np.integer, bool, _np.bool_)):
            x, y = self.t, int_term(o)
            if swapped:
                x, y = y, x
            if op == '+':
                return SymInt(x + y)
            if op == '-':
                return SymInt(x - y)
            if op == '*':
                return SymInt(x * y)
            if op == '/':
                return _div(z3.ToReal(x), z3.ToReal(y), isinstance(o, _np.integer))
        if isinstance(o, (float, _np.floating)) and (o != o or o in (math.inf, -math.inf)):
            return _special(self, o, op, swapped)
        if isinstance(o, (SymReal, float, _np.floating)):
            me = SymReal(z3.ToReal(self.t), False)
            return me._bin(o, op, swapped)
        return NotImplemented

    def __add__(self, o):
        return self._bin(o, '+')

    def __radd__(self, o):
        return self._bin(o, '+', True)

    def __sub__(self, o):
        return self._bin(o, '-')

    def __rsub__(self, o):
        return self._bin(o, '-', True)

    def __mul__(self, o):
        return self._bin(o, '*')

    def __rmul__(self, o):
        return self._bin(o, '*', True)

    def __truediv__(self, o):
        return self._bin(o, '/')

    def __rtruediv__(self, o):
        return self._bin(o, '/', True)

    def __floordiv__(self, o):
        if isinstance(o, (SymInt, int, _np.integer)) and not isinstance(o, bool):
            return SymInt(_int_floordiv(self.t, int_term(o), o))
        return SymReal(z3.ToReal(self.t)) // o

    def __rfloordiv__(self, o):
        if isinstance(o, (int, _np.integer)):
            return SymInt(_int_floordiv(int_term(o), self.t, self))
        return o // SymReal(z3.ToReal(self.t))

    def __mod__(self, o):
        if isinstance(o, (SymInt, int, _np.integer)) and not isinstance(o, bool):
            y = int_term(o)
            return SymInt(self.t - _int_floordiv(self.t, y, o) * y)
        return SymReal(z3.ToReal(self.t)) % o

    def __rmod__(self, o):
        if isinstance(o, (int, _np.integer)):
            x = int_term(o)
            return SymInt(x - _int_floordiv(x, self.t, self) * self.t)
        return o % SymReal(z3.ToReal(self.t))

    def __pow__(self, o):
        if isinstance(o, int) and 0 <= o <= 4:
            r = z3.IntVal(1)
            for _ in range(o):
                r = r * self.t
            return SymInt(r)
        return _pow(SymReal(z3.ToReal(self.t)), o)

    def __rpow__(self, o):
        return _pow(o, SymReal(z3.ToReal(self.t)))

    def __round__(self, n=None):
        return self

    def __floor__(self):
        return self

    def __ceil__(self):
        return self

    def __trunc__(self):
        return self

    def __index__(self):
        return _CUR.concretize_int(self)

    def __int__(self):
        return _CUR.concretize_int(self)


def _int_floordiv(x, y, yobj):
    """python floor division on Int terms.  z3's div floors for a positive divisor and
    ceils for a negative one."""
    if isinstance(yobj, (int, _np.integer)):
        if int(yobj) == 0:
            raise ZeroDivisionError('integer division or modulo by zero')
        if int(yobj) > 0:
            return x / y
        return -((-x) / (-y)) if False else z3.If((x % y) == 0, x / y, x / y - 1)
    if _CUR.branch(y == 0):
        raise ZeroDivisionError('integer division or modulo by zero')
    if _CUR.branch(y > 0):
        return x / y
    return z3.If((x % y) == 0, x / y, x / y - 1)


# ---- uninterpreted transcendental functions -----------------------------------------------

_R = z3.RealSort()
F_SQRT = z3.Function('sqrt', _R, _R)
F_LOG = z3.Function('log', _R, _R)
F_EXP = z3.Function('exp', _R, _R)
F_POW = z3.Function('pow', _R, _R, _R)
_UF = {}


def ufun(name, arity=1):
    k = (name, arity)
    if k not in _UF:
        _UF[k] = z3.Function(name, *([_R] * (arity + 1)))
    return _UF[k]


def uapply(name, *args):
    """apply an uninterpreted real function; concrete args -> math function when available"""
    if all(is_num(a) for a in args) and hasattr(math, name):
        return getattr(math, name)(*args)
    npf = any(SymReal._npf_of(a) for a in args)
    return SymReal(ufun(name, len(args))(*[real_term(a) for a in args]), npf)


def usqrt(x):
    if is_num(x):
        return _np.sqrt(x)
    if _isnan(x):
        return x
    npf = SymReal._npf_of(x)
    if _CUR.branch(real_term(x) < 0):
        if npf:
            return _np.float64('nan')
        raise ValueError('math domain error')
    t = F_SQRT(real_term(x))
    _CUR.add_axiom(z3.And(t >= 0, t * t == real_term(x)))
    return SymReal(t, npf)


def usqrt_total(x):
    """sqrt of a value known to be non-negative by construction (sum of squares): no domain split"""
    if is_num(x):
        return _np.sqrt(x)
    t = F_SQRT(real_term(x))
    _CUR.add_axiom(z3.And(t >= 0, t * t == real_term(x)))
    return SymReal(t, SymReal._npf_of(x))


def _pow(a, b):
    if is_num(b) and float(b) == int(b) and abs(int(b)) <= 6:
        n = int(b)
        base = a if is_sym(a) else a
        r = 1
        for _ in range(abs(n)):
            r = r * base
        return r if n >= 0 else 1 / r
    if is_num(b) and float(b) == 0.5:
        return usqrt(a)
    npf = SymReal._npf_of(a) or SymReal._npf_of(b)
    return SymReal(F_POW(real_term(a), real_term(b)), npf)


def sym_floor(x, as_real=False):
    if is_num(x):
        r = math.floor(x)
        return float(r) if as_real else r
    if isinstance(x, SymInt):
        return SymReal(z3.ToReal(x.t)) if as_real else x
    t = z3.ToInt(x.t)
    return SymReal(z3.ToReal(t), x.npf) if as_real else SymInt(t)


def sym_round(x, n=None):
    """python round(): half to even, over reals"""
    if not is_sym(x):
        return round(x, n) if n is not None else round(x)
    if isinstance(x, SymInt):
        return x
    if n is None:
        f = z3.ToInt(x.t)
        frac = x.t - z3.ToReal(f)
        r = z3.If(frac < z3.RealVal('1/2'), f,
                  z3.If(frac > z3.RealVal('1/2'), f + 1,
                        z3.If(f % 2 == 0, f, f + 1)))
        return SymInt(r)
    n = int(n)
    scale = 10 ** n if n >= 0 else Fraction(1, 10 ** (-n))
    y = x * scale
    r = sym_round(y, None)
    return SymReal(z3.ToReal(r.t), x.npf) / scale


def ite(c, a, b):
    """If-term without splitting (c: SymBool/bool)"""
    if isinstance(c, (bool, _np.bool_)):
        return a if c else b
    if _isnan(a) or _isnan(b) or _isinf(a) or _isinf(b):
        return a if bool(c) else b
    if isinstance(a, (SymBool, bool)) and isinstance(b, (SymBool, bool)):
        return mkbool(z3.If(c.t, bool_term(a), bool_term(b)))
    if isinstance(a, (SymInt, int, _np.integer)) and isinstance(b, (SymInt, int, _np.integer)):
        return SymInt(z3.If(c.t, int_term(a), int_term(b)))
    npf = SymReal._npf_of(a) or SymReal._npf_of(b)
    return SymReal(z3.If(c.t, real_term(a), real_term(b)), npf)


def smin(a, b):
    return ite(a <= b, a, b)


def smax(a, b):
    return ite(a >= b, a, b)


def sabs(a):
    if is_num(a):
        return abs(a)
    return type(a)(z3.If(a.t >= 0, a.t, -a.t), *a._extra())


# ----------------------------------------------------------------------------------------------
# path context


def _plain(x, depth=0):
    """info attached to a violation travels through the worker queue and into JSON: keep plain data only (a proxy that
    got into it - e.g. a reported value that became symbolic after a source change - is kept as its repr)"""
    if isinstance(x, (str, bool, int, float)) or x is None:
        return x
    if isinstance(x, (_np.floating, _np.integer, _np.bool_)):
        return x.item()
    if depth > 6:
        return repr(x)
    if isinstance(x, dict):
        return {str(k): _plain(v, depth + 1) for k, v in x.items()}
    if isinstance(x, (list, tuple, set)):
        return [_plain(v, depth + 1) for v in x]
    return repr(x)


class Violation:
    def __init__(self, label, model, info=None):
        self.label = label
        self.model = model
        self.info = _plain(info or {})

    def as_dict(self):
        return {'label': self.label, 'model': self.model, 'info': self.info}


class PathCtx:
    def __init__(self, prefix, opts):
        self.prefix = prefix
        self.pos = 0
        self.trace = []
        self.cache = {}
        self.solver = z3.Solver()
        self.opts = opts
        self.solver.set('timeout', int(opts.get('feas_timeout_ms', 20000)))
        self._rl_feas = int(opts.get('feas_rlimit', 0))
        self._rl_prove = int(opts.get('prove_rlimit', 0))
        if self._rl_feas:
            self.solver.set('rlimit', self._rl_feas)
        self.model = None
        self.new_prefixes = []
        self.inputs = {}  # name -> z3 const
        self.events = {}
        self.obligations = 0
        self.discharged = 0
        self.concrete_ok = 0
        self.inconclusive = []
        self.violations = []
        self.checks = 0
        self.solver_s = 0.0
        self.unknown_feas = 0
        self.reached = {}
        self.split_abs = opts.get('split_abs', False)
        self.max_decisions = opts.get('max_decisions', 20000)
        self.notes = []
        self.sym_decisions = 0
        self.t_start = time.perf_counter()
        self.max_path_seconds = opts.get('max_path_seconds')

    # -- inputs -------------------------------------------------------------------------------
    def real(self, name, lo=None, hi=None, npf=False, lo_strict=False, hi_strict=False):
        c = z3.Real(name)
        self.inputs[name] = c
        if lo is not None:
            self.solver.add(c > _q(lo) if lo_strict else c >= _q(lo))
        if hi is not None:
            self.solver.add(c < _q(hi) if hi_strict else c <= _q(hi))
        self.model = None
        return SymReal(c, npf)

    def int(self, name, lo=None, hi=None):
        c = z3.Int(name)
        self.inputs[name] = c
        if lo is not None:
            self.solver.add(c >= int(lo))
        if hi is not None:
            self.solver.add(c <= int(hi))
        self.model = None
        return SymInt(c)

    def bool(self, name):
        c = z3.Bool(name)
        self.inputs[name] = c
        return SymBool(c)

    # -- solver plumbing ----------------------------------------------------------------------
    def _check(self, *assumptions):
        if self.max_path_seconds and time.perf_counter() - self.t_start > self.max_path_seconds:
            raise PathLimit('path time limit')
        t0 = time.perf_counter()
        r = self.solver.check(*assumptions)
        self.solver_s += time.perf_counter() - t0
        self.checks += 1
        return r

    def add_axiom(self, t):
        self.solver.add(t)
        # the model stays valid only if it satisfies t; cheap to just drop it
        self.model = None

    def _ensure_model(self):
        if self.model is None:
            r = self._check()
            if r == z3.unsat:
                raise PathAbort('path condition unsatisfiable')
            if r == z3.unknown:
                self.unknown_feas += 1
                self.model = False  # no model available
            else:
                self.model = self.solver.model()

    def branch(self, c):
        if isinstance(c, (bool, _np.bool_)):
            return bool(c)
        c = z3.simplify(c)
        if z3.is_true(c):
            return True
        if z3.is_false(c):
            return False
        k = c.get_id()
        v = self.cache.get(k)
        if v is not None:
            return v
        if len(self.trace) >= self.max_decisions:
            raise PathLimit('decision limit')
        if self.pos < len(self.prefix):
            v = self.prefix[self.pos]
            self.pos += 1
            self.solver.add(c if v else z3.Not(c))
            self.model = None
        else:
            self._ensure_model()
            if self.model is False:
                # no model: check both sides
                r1 = self._check(c)
                r2 = self._check(z3.Not(c))
                if r1 == z3.unsat and r2 == z3.unsat:
                    raise PathAbort('both sides infeasible')
                if r1 != z3.unsat and r2 != z3.unsat:
                    v = True
                    self.new_prefixes.append(self.trace + [False])
                    self.sym_decisions += 1
                else:
                    v = r1 != z3.unsat
            else:
                mv = self.model.eval(c, model_completion=True)
                v = z3.is_true(mv)
                if not v and not z3.is_false(mv):
                    # model evaluation inconclusive (e.g. division by zero term): ask the solver
                    r = self._check(c)
                    v = r != z3.unsat
                    if v and r == z3.sat:
                        self.model = self.solver.model()
                other = z3.Not(c) if v else c
                r = self._check(other)
                if r != z3.unsat:
                    if r == z3.unknown:
                        self.unknown_feas += 1
                    self.new_prefixes.append(self.trace + [not v])
                    self.sym_decisions += 1
            self.solver.add(c if v else z3.Not(c))
            self.pos += 1
        self.trace.append(v)
        self.cache[k] = v
        return v

    def concretize_int(self, x):
        """enumerate the values of a symbolic int (forks one path per value)"""
        lo_hi = self.opts.get('concretize_int_range')
        if lo_hi is None:
            raise Concretization('index/int() of a symbolic integer')
        lo, hi = lo_hi
        for v in range(lo, hi):
            if self.branch(x.t == v):
                return v
        if self.branch(x.t == hi):
            return hi
        raise PathAbort('symbolic int outside the concretisation range')

    # -- harness API ---------------------------------------------------------------------------
    def assume(self, c):
        if isinstance(c, (bool, _np.bool_)):
            if not c:
                raise PathAbort('assume(False)')
            return
        t = bool_term(c)
        self.solver.add(t)
        self.model = None
        # feasibility is checked lazily (_ensure_model raises PathAbort)
        self._ensure_model()

    def constrain(self, c):
        """input constraint (part of the stated bound); no feasibility check"""
        if isinstance(c, (bool, _np.bool_)):
            if not c:
                raise PathAbort('constrain(False)')
            return
        self.solver.add(bool_term(c))
        self.model = None

    def event(self, name, n=1):
        self.events[name] = self.events.get(name, 0) + n

    def reach(self, label):
        """reachability twin: this point was reached under a satisfiable path condition"""
        self.reached[label] = self.reached.get(label, 0) + 1

    def get_model(self):
        self._ensure_model()
        if self.model is False:
            return {}
        return model_to_dict(self.model, self.inputs)

    def prove(self, c, label, info=None, timeout_ms=None, witness=None):
        """obligation: c holds for every value on this path.  Returns True if discharged.
        witness: optional stronger violation condition (e.g. a difference well above the tolerance) preferred for the counterexample"""
        self.obligations += 1
        self.reach(label)
        if isinstance(c, (bool, _np.bool_)):
            if c:
                self.discharged += 1
                self.concrete_ok += 1
                return True
            mdl = self.get_model()
            if not mdl and self.inputs:
                # the path condition is not known to be satisfiable (solver unknown): cannot be turned into a witness
                self.inconclusive.append(label)
                return False
            self.violations.append(Violation(label, mdl, info))
            return False
        t = z3.simplify(bool_term(c))
        if z3.is_true(t):
            self.discharged += 1
            return True
        if timeout_ms is None:
            timeout_ms = self.opts.get('prove_timeout_ms', 60000)
        self.solver.set('timeout', int(timeout_ms))
        if self._rl_prove:
            self.solver.set('rlimit', self._rl_prove)
        r = self._check(z3.Not(t))
        self.solver.set('timeout', int(self.opts.get('feas_timeout_ms', 20000)))
        if self._rl_feas or self._rl_prove:
            self.solver.set('rlimit', self._rl_feas)
        if r == z3.unsat:
            self.discharged += 1
            return True
        if r == z3.sat:
            m = self.solver.model()
            wit = []
            if witness is not None and not isinstance(witness, (bool, _np.bool_)):
                self.solver.set('timeout', int(self.opts.get('lattice_timeout_ms', 3000)))
                try:
                    if self._check(bool_term(witness)) == z3.sat:
                        m = self.solver.model()
                        wit = [bool_term(witness)]
                finally:
                    self.solver.set('timeout', int(self.opts.get('feas_timeout_ms', 20000)))
            # prefer a counterexample on a float-exact lattice (k/64): it survives the rounding of the concrete replay
            if self.opts.get('lattice_models', True):
                lat = [z3.IsInt(c * 64) for c in self.inputs.values() if z3.is_real(c)]
                if lat:
                    self.solver.set('timeout', int(self.opts.get('lattice_timeout_ms', 3000)))
                    try:
                        r3 = self._check(z3.Not(t), *(lat + wit))
                        if r3 == z3.sat:
                            m = self.solver.model()
                    finally:
                        self.solver.set('timeout', int(self.opts.get('feas_timeout_ms', 20000)))
            self.violations.append(Violation(label, model_to_dict(m, self.inputs), info))
            return False
        r2 = self._fallback_prove(t, timeout_ms)
        if r2 == 'unsat':
            self.discharged += 1
            return True
        self.inconclusive.append(label)
        return False

    def _fallback_prove(self, t, timeout_ms):
        """second opinion for unknown: fresh z3 solver with the nlsat tactic"""
        try:
            s = z3.Then('simplify', 'purify-arith', 'qfnra-nlsat').solver() if self.opts.get('nlsat_fallback') else None
            if s is None:
                return 'unknown'
            s.set('timeout', int(timeout_ms))
            for a in self.solver.assertions():
                s.add(a)
            s.add(z3.Not(t))
            t0 = time.perf_counter()
            r = s.check()
            self.solver_s += time.perf_counter() - t0
            self.checks += 1
            return str(r)
        except z3.Z3Exception:
            return 'unknown'

    def find(self, c, timeout_ms=None):
        """is c satisfiable on this path?  returns model dict / None (unsat) / 'unknown'"""
        t = bool_term(c)
        if timeout_ms:
            self.solver.set('timeout', int(timeout_ms))
        r = self._check(t)
        if timeout_ms:
            self.solver.set('timeout', int(self.opts.get('feas_timeout_ms', 20000)))
        if r == z3.sat:
            return model_to_dict(self.solver.model(), self.inputs)
        if r == z3.unsat:
            return None
        return 'unknown'

    def equal(self, a, b, tol=1e-9):
        """term for 'a equals b' following DESIGN 2.7: exact when symbolic, tolerance when both
        concrete floats; handles nan/None"""
        if a is None or b is None:
            return a is None and b is None
        if isinstance(a, str) or isinstance(b, str):
            return a == b
        if _isnan(a) or _isnan(b):
            return _isnan(a) and _isnan(b)
        if _isinf(a) or _isinf(b):
            return (not is_sym(a)) and (not is_sym(b)) and a == b
        if is_sym(a) or is_sym(b):
            return a == b
        if isinstance(a, (bool, _np.bool_)) or isinstance(b, (bool, _np.bool_)):
            return bool(a) == bool(b)
        if is_num(a) and is_num(b):
            return abs(a - b) <= tol * max(1.0, abs(a), abs(b))
        return a == b


def model_to_dict(m, inputs):
    out = {}
    for name, c in inputs.items():
        v = m.eval(c, model_completion=True)
        if z3.is_bool(v):
            out[name] = z3.is_true(v)
        elif z3.is_int_value(v):
            out[name] = v.as_long()
        elif z3.is_rational_value(v):
            fr = v.as_fraction()
            out[name] = float(fr)
        elif z3.is_algebraic_value(v):
            out[name] = float(v.approx(20).as_fraction())
        else:
            out[name] = str(v)
    return out


# ----------------------------------------------------------------------------------------------
# running one path


def run_path(fn, kwargs, prefix, opts, collect_funcs=False, func_filter=None):
    """execute fn(ctx, **kwargs) along the decision prefix; returns a result dict"""
    global _CUR
    ctx = PathCtx(prefix, opts)
    _CUR = ctx
    res = {'status': 'ok', 'error': None}
    funcs = set()
    if collect_funcs:
        def prof(frame, event, arg):
            if event == 'call':
                co = frame.f_code
                fnm = co.co_filename
                if func_filter is None or func_filter in fnm:
                    funcs.add(fnm.split('/jesse/', 1)[-1] + ':' + co.co_qualname if '/jesse/' in fnm else fnm)
        sys.setprofile(prof)
    t0 = time.perf_counter()
    try:
        out = fn(ctx, **kwargs)
        res['out'] = out
    except PathAbort as e:
        res['status'] = 'abort'
        res['error'] = str(e)
    except PathLimit as e:
        res['status'] = 'limit'
        res['error'] = str(e) + '\n' + traceback.format_exc(limit=-30)
    except Concretization as e:
        res['status'] = 'error'
        res['error'] = 'Concretization: ' + str(e) + '\n' + traceback.format_exc(limit=12)
    except Exception as e:  # unexpected exception escaping the harness
        res['status'] = 'error'
        res['error'] = repr(e) + '\n' + traceback.format_exc(limit=14)
    finally:
        if collect_funcs:
            sys.setprofile(None)
        _CUR = None
    res.update({
        'wall': time.perf_counter() - t0,
        'trace_len': len(ctx.trace),
        'new_prefixes': ctx.new_prefixes,
        'events': ctx.events,
        'obligations': ctx.obligations,
        'discharged': ctx.discharged,
        'concrete_ok': ctx.concrete_ok,
        'inconclusive': ctx.inconclusive,
        'violations': [v.as_dict() for v in ctx.violations],
        'checks': ctx.checks,
        'solver_s': ctx.solver_s,
        'unknown_feas': ctx.unknown_feas,
        'reached': ctx.reached,
        'sym_decisions': len(ctx.trace),
        'funcs': sorted(funcs),
        'notes': ctx.notes,
    })
    if res['status'] == 'limit':
        try:
            _CUR = ctx
            ctx.max_decisions = 10 ** 9
            res['error'] += '\nMODEL: %r' % (ctx.get_model(),)
        except BaseException:
            pass
        finally:
            _CUR = None
    if res['status'] == 'ok' and opts.get('want_sample'):
        try:
            _CUR = ctx
            res['sample_model'] = ctx.get_model()
        except BaseException:
            res['sample_model'] = {}
        finally:
            _CUR = None
    return res
