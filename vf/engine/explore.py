"""Parallel depth-first exploration of harness paths (decision-prefix re-execution)."""
import multiprocessing as mp
import os
import pickle
import queue
import time
import traceback

from . import symex
from .. import REPO as _REPO


class Job:
    """one harness function + its concrete parameters (the bound)"""

    def __init__(self, name, fn, kwargs=None, opts=None, group=None):
        self.name = name
        self.fn = fn
        self.kwargs = kwargs or {}
        self.opts = opts or {}
        self.group = group or name


class JobResult:
    def __init__(self, job):
        self.name = job.name
        self.group = job.group
        self.bounds = {k: (v if isinstance(v, (int, float, str, bool, type(None), list, tuple, dict)) else repr(v))
                       for k, v in job.kwargs.items()}
        self.paths = 0
        self.ok_paths = 0
        self.aborted = 0
        self.limited = 0
        self.capped = False
        self.cpu = 0.0
        self.limit_errors = []
        self.errors = []
        self.obligations = 0
        self.discharged = 0
        self.concrete_ok = 0
        self.inconclusive = []
        self.violations = []
        self.viol_keys = {}
        self.events = {}
        self.reached = {}
        self.checks = 0
        self.solver_s = 0.0
        self.unknown_feas = 0
        self.nontrivial = 0
        self.funcs = set()
        self.samples = []
        self.complete = False
        self.wall = 0.0
        self.outs = []

    def add(self, r):
        self.paths += 1
        st = r['status']
        if st == 'ok':
            self.ok_paths += 1
        elif st == 'abort':
            self.aborted += 1
        elif st == 'limit':
            self.limited += 1
            if len(self.limit_errors) < 2:
                self.limit_errors.append(r['error'])
        else:
            if len(self.errors) < 5:
                self.errors.append(r['error'])
            else:
                self.errors.append('...')
                self.errors = self.errors[:6]
        self.obligations += r['obligations']
        self.discharged += r['discharged']
        self.concrete_ok += r['concrete_ok']
        if r['inconclusive']:
            self.inconclusive.extend(r['inconclusive'][:3])
        for v in r['violations']:
            info = v.get('info') or {}
            key = v['label'] + '|' + ','.join(sorted(k for k in info if info[k] is True))
            n = self.viol_keys.get(key, 0)
            self.viol_keys[key] = n + 1
            if n < 5 and len(self.violations) < 2000:
                self.violations.append(v)
        for k, n in r['events'].items():
            self.events[k] = self.events.get(k, 0) + n
        for k, n in r['reached'].items():
            self.reached[k] = self.reached.get(k, 0) + n
        self.checks += r['checks']
        self.solver_s += r['solver_s']
        self.unknown_feas += r['unknown_feas']
        if r['trace_len'] > 0:
            self.nontrivial += 1
        self.funcs.update(r['funcs'])
        if 'sample_model' in r and len(self.samples) < 3:
            self.samples.append({'job': self.name, 'decisions': r['trace_len'], 'model': r['sample_model'],
                                 'obligations': r['obligations'], 'events': r['events']})
        if r.get('out') is not None and len(self.outs) < 50:
            self.outs.append(r['out'])

    def summary(self):
        return {
            'job': self.name, 'bounds': self.bounds, 'paths': self.paths, 'ok_paths': self.ok_paths,
            'aborted_paths': self.aborted, 'limit_paths': self.limited, 'errors': len(self.errors),
            'obligations': self.obligations, 'discharged': self.discharged,
            'concrete_obligations': self.concrete_ok,
            'inconclusive': len(self.inconclusive), 'violations': sum(self.viol_keys.values()),
            'events': self.events, 'reached': self.reached, 'solver_checks': self.checks,
            'solver_s': round(self.solver_s, 3), 'unknown_feasibility': self.unknown_feas,
            'complete': self.complete, 'capped': self.capped, 'wall_s': round(self.wall, 2),
        }


def _worker(jobs, task_q, res_q, wid, t_cur=None, j_cur=None):
    os.environ['VF_WORKER'] = str(wid)
    n_done = 0
    seen_jobs = {}
    while True:
        try:
            task = task_q.get()
        except (EOFError, KeyboardInterrupt):
            return
        if task is None:
            return
        ji, prefix = task
        job = jobs[ji]
        cnt = seen_jobs.get(ji, 0)
        seen_jobs[ji] = cnt + 1
        opts = dict(job.opts)
        opts['want_sample'] = cnt < 2
        if t_cur is not None:
            j_cur[wid] = ji
            t_cur[wid] = time.time()
        try:
            if opts.get('fork_per_path'):
                r = _run_forked(job, prefix, opts, cnt)
            else:
                r = symex.run_path(job.fn, job.kwargs, prefix, opts, collect_funcs=(cnt < 2),
                                   func_filter=opts.get('func_filter', _REPO + '/jesse'))
        except BaseException as e:  # engine error
            r = {'status': 'error', 'error': 'ENGINE: ' + repr(e) + '\n' + traceback.format_exc(limit=10),
                 'new_prefixes': [], 'events': {}, 'obligations': 0, 'discharged': 0, 'concrete_ok': 0,
                 'inconclusive': [], 'violations': [], 'checks': 0, 'solver_s': 0.0, 'unknown_feas': 0,
                 'reached': {}, 'trace_len': 0, 'funcs': [], 'notes': [], 'wall': 0.0}
        if t_cur is not None:
            t_cur[wid] = 0.0
        r.pop('notes', None)
        try:
            # mp.Queue pickles in a feeder thread and drops what it cannot pickle without telling anyone (the parent would wait
            # for this path for ever): check here and turn such a result into a path error
            pickle.dumps(r)
        except Exception as e:
            r = {'status': 'error', 'error': 'ENGINE: result of the path cannot be sent to the parent: ' + repr(e),
                 'new_prefixes': [], 'events': {}, 'obligations': 0, 'discharged': 0, 'concrete_ok': 0,
                 'inconclusive': [], 'violations': [], 'checks': 0, 'solver_s': 0.0, 'unknown_feas': 0,
                 'reached': {}, 'trace_len': 0, 'funcs': [], 'notes': [], 'wall': 0.0}
            r.pop('notes', None)
        res_q.put((ji, r))
        n_done += 1


def _run_forked(job, prefix, opts, cnt):
    """run one path in a forked child so that the code under test starts from the pristine process state of the worker
    (used where process-global state is the subject: C11)"""
    import pickle
    r_fd, w_fd = os.pipe()
    pid = os.fork()
    if pid == 0:
        code = 0
        try:
            os.close(r_fd)
            r = symex.run_path(job.fn, job.kwargs, prefix, opts, collect_funcs=(cnt < 2),
                               func_filter=opts.get('func_filter', _REPO + '/jesse'))
            r.pop('out', None)
            data = pickle.dumps(r)
            with os.fdopen(w_fd, 'wb') as f:
                f.write(data)
        except BaseException:
            code = 1
        finally:
            os._exit(code)
    os.close(w_fd)
    with os.fdopen(r_fd, 'rb') as f:
        data = f.read()
    os.waitpid(pid, 0)
    if not data:
        raise RuntimeError('forked path produced no result')
    return pickle.loads(data)


def explore(jobs, nworkers=None, budget_s=600, max_paths=None, stop_on_violation=False, progress=None):
    """run all jobs to completion (or budget).  returns list of JobResult"""
    if nworkers is None:
        nworkers = int(os.environ.get('VF_WORKERS', '16'))
    ctx = mp.get_context('fork')
    task_q = ctx.Queue()
    res_q = ctx.Queue()
    results = [JobResult(j) for j in jobs]
    stacks = [[[]] for _ in jobs]  # per-job stack of prefixes
    outstanding = [0] * len(jobs)
    t_start = time.time()
    started = [None] * len(jobs)
    procs = []
    # watchdog: when a path started and on which job, per worker (a solver call that ignores its timeout would otherwise hold the
    # whole run until the budget: the overdue worker is killed, its job is closed as capped and a fresh worker takes its place)
    t_cur = ctx.Array('d', nworkers)
    j_cur = ctx.Array('i', nworkers)
    for w in range(nworkers):
        p = ctx.Process(target=_worker, args=(jobs, task_q, res_q, w, t_cur, j_cur), daemon=True)
        p.start()
        procs.append(p)

    def overdue():
        now = time.time()
        out = []
        for w in range(nworkers):
            t0 = t_cur[w]
            if t0 > 0:
                lim = 3 * jobs[j_cur[w]].opts.get('max_path_seconds', 100) + 30
                if now - t0 > lim:
                    out.append((w, j_cur[w], now - t0))
        return out
    inflight = 0
    total_paths = 0
    timed_out = False
    stop = False
    rr = 0
    try:
        while True:
            # dispatch: keep 2 tasks per worker in flight
            while inflight < nworkers * 2 and not stop:
                ji = None
                for cand in range(len(jobs)):  # lowest-numbered job that has work
                    if stacks[cand]:
                        ji = cand
                        break
                if ji is None:
                    break
                prefix = stacks[ji].pop()
                if started[ji] is None:
                    started[ji] = time.time()
                task_q.put((ji, prefix))
                outstanding[ji] += 1
                inflight += 1
            if inflight == 0:
                break
            try:
                ji, r = res_q.get(timeout=5)
            except queue.Empty:
                killed = False
                for (w, kj, age) in overdue():
                    try:
                        procs[w].kill()
                        procs[w].join(timeout=2)
                    except Exception:
                        pass
                    t_cur[w] = 0.0
                    inflight -= 1
                    outstanding[kj] -= 1
                    results[kj].capped = True
                    results[kj].watchdog = getattr(results[kj], 'watchdog', 0) + 1
                    stacks[kj].clear()
                    if outstanding[kj] == 0:
                        results[kj].complete = False
                        results[kj].wall = time.time() - started[kj]
                    p = ctx.Process(target=_worker, args=(jobs, task_q, res_q, w, t_cur, j_cur), daemon=True)
                    p.start()
                    procs[w] = p
                    killed = True
                if not killed and any(not p.is_alive() for p in procs):
                    raise RuntimeError('worker died')
                if time.time() - t_start > budget_s:
                    timed_out = True
                    break
                continue
            inflight -= 1
            outstanding[ji] -= 1
            total_paths += 1
            results[ji].add(r)
            cap = jobs[ji].opts.get('max_paths')
            results[ji].cpu += r.get('wall', 0.0)
            tcap = jobs[ji].opts.get('max_job_seconds')
            if tcap and results[ji].cpu >= tcap and (r['new_prefixes'] or stacks[ji]):
                results[ji].capped = True
                stacks[ji].clear()
            elif cap and results[ji].paths >= cap and (r['new_prefixes'] or stacks[ji]):
                results[ji].capped = True
                stacks[ji].clear()
            elif jobs[ji].opts.get('stop_on_error') and r['status'] == 'error':
                results[ji].capped = True
                stacks[ji].clear()
            else:
                stacks[ji].extend(r['new_prefixes'])
            if not stacks[ji] and outstanding[ji] == 0:
                results[ji].complete = not results[ji].capped
                results[ji].wall = time.time() - started[ji]
            if progress and total_paths % 500 == 0:
                progress(total_paths, sum(len(s) for s in stacks), time.time() - t_start)
            if time.time() - t_start > budget_s or (max_paths and total_paths >= max_paths):
                timed_out = True
                stop = True
                break
            if stop_on_violation and r['violations']:
                stop = True
                for s in stacks:
                    s.clear()
    finally:
        for p in procs:
            try:
                p.terminate()
            except Exception:
                pass
        for p in procs:
            p.join(timeout=2)
    for ji, res in enumerate(results):
        if not res.complete and started[ji] is not None:
            res.wall = time.time() - started[ji]
    return results, timed_out


def run_inline(job, max_paths=100000, budget_s=600):
    """single-process exploration (debugging, tiny harnesses)"""
    res = JobResult(job)
    stack = [[]]
    t0 = time.time()
    n = 0
    while stack:
        prefix = stack.pop()
        opts = dict(job.opts)
        opts['want_sample'] = n < 2
        r = symex.run_path(job.fn, job.kwargs, prefix, opts, collect_funcs=(n < 2),
                           func_filter=opts.get('func_filter', _REPO + '/jesse'))
        n += 1
        res.add(r)
        stack.extend(r['new_prefixes'])
        if n >= max_paths or time.time() - t0 > budget_s:
            res.wall = time.time() - t0
            return res, True
    res.complete = True
    res.wall = time.time() - t0
    return res, False
