"""numpy shim: a module-like object that passes everything through to numpy except the
functions that cannot work on object arrays holding proxies (float64-only creation,
isnan, sqrt, where, ...).  Installed as the global ``np`` of selected jesse modules."""
import math

import numpy as _np

from . import symex as sx

_FLOATY = (None, float, _np.float64, 'float', 'float64')


def _has_sym(x):
    if sx.is_sym(x):
        return True
    if isinstance(x, _np.ndarray):
        return x.dtype == object
    if isinstance(x, (list, tuple)):
        return any(_has_sym(e) for e in x)
    return False


def _obj(a):
    """float array -> object array holding numpy float64 scalars"""
    if isinstance(a, _np.ndarray) and a.dtype != object:
        out = _np.empty(a.shape, dtype=object)
        flat = out.reshape(-1)
        src = a.reshape(-1)
        for i in range(src.size):
            flat[i] = src[i]
        return out
    return a


def _map(f, *arrs):
    """elementwise map over broadcast object arrays / scalars -> object array (or scalar)"""
    if not any(isinstance(a, _np.ndarray) for a in arrs):
        return f(*arrs)
    bs = _np.broadcast_arrays(*[a if isinstance(a, _np.ndarray) else _np.array(a, dtype=object) for a in arrs])
    out = _np.empty(bs[0].shape, dtype=object)
    it = _np.nditer(bs[0], flags=['multi_index', 'refs_ok'])
    for _ in it:
        idx = it.multi_index
        out[idx] = f(*[b[idx] for b in bs])
    return out


def _tobool(a):
    """object array of bools/SymBools -> keeps object dtype if any SymBool, else bool array"""
    if isinstance(a, _np.ndarray) and a.dtype == object:
        if not any(isinstance(e, sx.SymBool) for e in a.reshape(-1)):
            return a.astype(bool)
    return a


def _concrete_key(key):
    """an index that is an object array of bools / SymBools (the result of a comparison on proxies) becomes a bool array: every
    symbolic entry is decided by the path (bool() splits), as numpy's mask indexing needs concrete membership"""
    if isinstance(key, _np.ndarray) and key.dtype == object and key.size and all(
            isinstance(e, (bool, _np.bool_, sx.SymBool)) for e in key.reshape(-1)):
        out = _np.empty(key.shape, dtype=bool)
        flat = out.reshape(-1)
        for i, e in enumerate(key.reshape(-1)):
            flat[i] = bool(e)
        return out
    if isinstance(key, tuple):
        return tuple(_concrete_key(k) for k in key)
    return key


class IntArr(_np.ndarray):
    """concrete integer array (np.arange) that accepts masks computed on proxies as an index"""

    def __getitem__(self, key):
        return _np.ndarray.__getitem__(self, _concrete_key(key))

    def __setitem__(self, key, value):
        return _np.ndarray.__setitem__(self, _concrete_key(key), value)


class ObjArr(_np.ndarray):
    """object ndarray that keeps numpy's float semantics where plain object arrays differ:
    the sum of an empty float array is 0.0 (numpy float64), not the int 0"""

    def __getitem__(self, key):
        if isinstance(key, (_np.ndarray, tuple)):
            key = _concrete_key(key)
        return _np.ndarray.__getitem__(self, key)

    def __setitem__(self, key, value):
        if isinstance(key, (_np.ndarray, tuple)):
            key = _concrete_key(key)
        return _np.ndarray.__setitem__(self, key, value)

    def sum(self, axis=None, *a, **k):
        if self.size == 0 and axis is None:
            return _np.float64(0.0)
        r = _np.ndarray.sum(self.view(_np.ndarray), axis, *a, **k)
        if isinstance(r, _np.ndarray):
            return r.view(ObjArr)
        if isinstance(r, (int, float)) and not isinstance(r, _np.generic):
            return _np.float64(r)
        return r

    def astype(self, dtype, *a, **k):
        # candles[:, j].astype(np.float64) on a matrix of proxies: the values already are "floats" (reals)
        try:
            is_float = _np.issubdtype(_np.dtype(dtype), _np.floating)
        except TypeError:
            is_float = False
        if is_float and any(sx.is_sym(e) for e in self.reshape(-1)):
            return self.copy()
        try:
            is_int = _np.issubdtype(_np.dtype(dtype), _np.integer)
        except TypeError:
            is_int = False
        if is_int and any(sx.is_sym(e) for e in self.reshape(-1)):
            # float -> int conversion truncates toward zero
            out = _np.empty(self.shape, dtype=object)
            flat = out.reshape(-1)
            for i, e in enumerate(self.reshape(-1)):
                if isinstance(e, sx.SymReal):
                    f = sx.sym_floor(e)
                    flat[i] = sx.ite(e >= 0, f, -sx.sym_floor(-e))
                elif sx.is_sym(e):
                    flat[i] = e
                else:
                    flat[i] = int(e)
            return out.view(ObjArr)
        return _np.ndarray.astype(self, dtype, *a, **k)


def _mk_reduction(name):
    base = getattr(_np.ndarray, name)

    def red(self, *a, **k):
        r = base(self.view(_np.ndarray), *a, **k)
        if isinstance(r, _np.ndarray):
            return r.view(ObjArr) if r.ndim else r.item()
        return r
    red.__name__ = name
    return red


for _n in ('max', 'min', 'prod', 'any', 'all', 'argmax', 'argmin'):
    setattr(ObjArr, _n, _mk_reduction(_n))


def _view(a):
    if isinstance(a, _np.ndarray) and a.dtype == object and not isinstance(a, ObjArr):
        return a.view(ObjArr)
    return a


class NPShim:
    """ALWAYS_OBJECT: creation functions return object arrays (so proxies can be stored later)"""

    def __init__(self, always_object=True):
        self._always_object = always_object
        self.ndarray = _np.ndarray
        self.nan = _np.nan
        self.inf = _np.inf
        self.pi = _np.pi
        self.float64 = _np.float64

    def __getattr__(self, name):
        return getattr(_np, name)

    # ---- creation ---------------------------------------------------------------------------
    def _mk(self, shape, fill, dtype):
        if dtype in _FLOATY and self._always_object:
            return _np.full(shape, _np.float64(fill), dtype=object).view(ObjArr)
        return _np.full(shape, fill, dtype=dtype)

    def zeros(self, shape, dtype=None, **kw):
        return self._mk(shape, 0.0, dtype)

    def ones(self, shape, dtype=None, **kw):
        return self._mk(shape, 1.0, dtype)

    def empty(self, shape, dtype=None, **kw):
        return self._mk(shape, 0.0, dtype)

    def full(self, shape, fill_value, dtype=None, **kw):
        if dtype in _FLOATY and (self._always_object or sx.is_sym(fill_value)):
            return _np.full(shape, fill_value if sx.is_sym(fill_value) else _np.float64(fill_value), dtype=object)
        return _np.full(shape, fill_value, dtype=dtype)

    def zeros_like(self, a, dtype=None, **kw):
        a = _np.asarray(a) if not isinstance(a, _np.ndarray) else a
        if a.dtype == object or (dtype in _FLOATY and self._always_object and a.dtype.kind == 'f'):
            return _np.full(a.shape, _np.float64(0.0), dtype=object)
        return _np.zeros_like(a, dtype=dtype)

    def ones_like(self, a, dtype=None, **kw):
        a = _np.asarray(a) if not isinstance(a, _np.ndarray) else a
        if a.dtype == object or (dtype in _FLOATY and self._always_object and a.dtype.kind == 'f'):
            return _np.full(a.shape, _np.float64(1.0), dtype=object)
        return _np.ones_like(a, dtype=dtype)

    def empty_like(self, a, dtype=None, **kw):
        return self.zeros_like(a, dtype=dtype)

    def full_like(self, a, fill_value, dtype=None, **kw):
        a = _np.asarray(a) if not isinstance(a, _np.ndarray) else a
        if a.dtype == object or sx.is_sym(fill_value) or (self._always_object and a.dtype.kind == 'f'):
            return _np.full(a.shape, fill_value if sx.is_sym(fill_value) else _np.float64(fill_value), dtype=object)
        return _np.full_like(a, fill_value, dtype=dtype)

    def array(self, x, dtype=None, **kw):
        if dtype in (float, _np.float64, 'float', 'float64') and (_has_sym(x) or self._always_object):
            a = _np.array(x, dtype=object, **{k: v for k, v in kw.items() if k in ('copy', 'ndmin')})
            return _numpyfy(a)
        return _np.array(x, dtype=dtype, **kw)

    def asarray(self, x, dtype=None, **kw):
        if isinstance(x, _np.ndarray) and x.dtype == object and dtype in _FLOATY:
            return x
        if dtype in (float, _np.float64, 'float', 'float64') and _has_sym(x):
            return _numpyfy(_np.array(x, dtype=object))
        return _np.asarray(x, dtype=dtype, **kw)

    def arange(self, *a, **kw):
        r = _np.arange(*a, **kw)
        return r.view(IntArr) if r.dtype.kind in 'iu' else r

    def interp(self, x, xp, fp, left=None, right=None, **kw):
        arrs = [_np.asarray(v) for v in (x, xp, fp)]
        if not any(a.dtype == object for a in arrs) or kw:
            return _np.interp(x, xp, fp, left=left, right=right, **kw)
        xs, xps, fps = arrs[0], list(arrs[1].reshape(-1)), list(arrs[2].reshape(-1))
        if not xps:
            raise ValueError('array of sample points is empty')

        def one(xv):
            # piecewise-linear interpolation over increasing sample points (comparisons on proxies split the path)
            if xv < xps[0]:
                return fps[0] if left is None else left
            if xv >= xps[-1]:
                return (fps[-1] if right is None else right) if xv > xps[-1] else fps[-1]
            for j in range(len(xps) - 1):
                if xv < xps[j + 1]:
                    return (fps[j + 1] - fps[j]) / (xps[j + 1] - xps[j]) * (xv - xps[j]) + fps[j]
            return fps[-1]
        if xs.ndim == 0:
            return one(xs.item())
        out = _np.empty(xs.shape, dtype=object)
        flat = out.reshape(-1)
        for i, xv in enumerate(xs.reshape(-1)):
            flat[i] = one(xv)
        return _numpyfy(out).view(ObjArr)

    def concatenate(self, arrs, axis=0, **kw):
        return _view(_np.concatenate(arrs, axis=axis, **kw))

    def delete(self, arr, obj, axis=None):
        return _view(_np.delete(arr, obj, axis=axis))

    def ascontiguousarray(self, x, dtype=None):
        if isinstance(x, _np.ndarray) and x.dtype == object:
            return x
        return _np.ascontiguousarray(x, dtype=dtype)

    # ---- predicates -------------------------------------------------------------------------
    def isnan(self, x):
        if sx.is_sym(x):
            return False
        if isinstance(x, _np.ndarray) and x.dtype == object:
            return _np.array([(not sx.is_sym(e)) and e is not None and e != e for e in x.reshape(-1)],
                             dtype=bool).reshape(x.shape)
        return _np.isnan(x)

    def isfinite(self, x):
        if sx.is_sym(x):
            return True
        if isinstance(x, _np.ndarray) and x.dtype == object:
            return _np.array([sx.is_sym(e) or bool(_np.isfinite(e)) for e in x.reshape(-1)],
                             dtype=bool).reshape(x.shape)
        return _np.isfinite(x)

    def isinf(self, x):
        if sx.is_sym(x):
            return False
        if isinstance(x, _np.ndarray) and x.dtype == object:
            return _np.array([(not sx.is_sym(e)) and bool(_np.isinf(e)) for e in x.reshape(-1)],
                             dtype=bool).reshape(x.shape)
        return _np.isinf(x)

    def nan_to_num(self, x, nan=0.0, **kw):
        if sx.is_sym(x):
            return x
        if isinstance(x, _np.ndarray) and x.dtype == object:
            return _map(lambda e: e if sx.is_sym(e) else (_np.float64(nan) if e != e else e), x)
        return _np.nan_to_num(x, nan=nan, **kw)

    # ---- elementwise math -------------------------------------------------------------------
    def _un(self, name, f, x):
        if sx.is_sym(x):
            return f(x)
        if isinstance(x, _np.ndarray) and x.dtype == object:
            return _map(lambda e: f(e) if sx.is_sym(e) else getattr(_np, name)(e), x)
        return getattr(_np, name)(x)

    def sqrt(self, x):
        return self._un('sqrt', sx.usqrt, x)

    def abs(self, x):
        return self._un('abs', sx.sabs, x)

    absolute = abs
    fabs = abs

    def log(self, x):
        return self._un('log', lambda e: sx.uapply('log', e), x)

    def log10(self, x):
        return self._un('log10', lambda e: sx.uapply('log10', e), x)

    def exp(self, x):
        return self._un('exp', lambda e: sx.uapply('exp', e), x)

    def sin(self, x):
        return self._un('sin', lambda e: sx.uapply('sin', e), x)

    def cos(self, x):
        return self._un('cos', lambda e: sx.uapply('cos', e), x)

    def tan(self, x):
        return self._un('tan', lambda e: sx.uapply('tan', e), x)

    def arctan(self, x):
        return self._un('arctan', lambda e: sx.uapply('atan', e), x)

    def tanh(self, x):
        return self._un('tanh', lambda e: sx.uapply('tanh', e), x)

    def floor(self, x):
        return self._un('floor', lambda e: sx.sym_floor(e, as_real=True), x)

    def ceil(self, x):
        return self._un('ceil', lambda e: -sx.sym_floor(-e, as_real=True), x)

    def sign(self, x):
        def sg(e):
            return sx.ite(e > 0, 1.0, sx.ite(e < 0, -1.0, 0.0))
        return self._un('sign', sg, x)

    def square(self, x):
        return x * x

    def power(self, a, b):
        if _has_sym(a) or _has_sym(b):
            return _map(lambda p, q: p ** q, a, b)
        return _np.power(a, b)

    def degrees(self, x):
        return x * (180.0 / _np.pi)

    rad2deg = degrees

    def radians(self, x):
        return x * (_np.pi / 180.0)

    deg2rad = radians

    def arctan2(self, a, b):
        return _map(lambda p, q: sx.uapply('atan2', p, q), a, b)

    def arcsin(self, x):
        return self._un('arcsin', lambda e: sx.uapply('asin', e), x)

    def arccos(self, x):
        return self._un('arccos', lambda e: sx.uapply('acos', e), x)

    def where(self, cond, a=None, b=None):
        if a is None:
            if isinstance(cond, _np.ndarray) and cond.dtype == object:
                cond = _np.array([bool(e) for e in cond.reshape(-1)], dtype=bool).reshape(cond.shape)
            return _np.where(cond)
        if _has_sym(cond) or _has_sym(a) or _has_sym(b):
            return _map(lambda c, p, q: sx.ite(c, p, q) if isinstance(c, sx.SymBool) else (p if c else q), cond, a, b)
        return _np.where(cond, a, b)

    def clip(self, x, a_min=None, a_max=None, **kw):
        lo, hi = a_min, a_max
        if lo is None and 'min' in kw:
            lo = kw['min']
        if hi is None and 'max' in kw:
            hi = kw['max']
        if lo is None:
            return self.minimum(x, hi)
        if hi is None:
            return self.maximum(x, lo)
        if _has_sym(x) or _has_sym(lo) or _has_sym(hi):
            return self.minimum(self.maximum(x, lo), hi)
        return _np.clip(x, lo, hi)

    def _along(self, f, a, axis):
        """apply a 1-D reduction along an axis of an object array"""
        mv = _np.moveaxis(a, axis, -1)
        out = _np.empty(mv.shape[:-1], dtype=object)
        for idx in _np.ndindex(*mv.shape[:-1]):
            out[idx] = f(mv[idx])
        return _view(out)

    def max(self, a, axis=None, **kw):
        if isinstance(a, _np.ndarray) and a.dtype == object:
            if axis is None:
                return _reduce(_max2, a.reshape(-1))
            return self._along(lambda v: _reduce(_max2, v), a, axis)
        return _np.max(a, axis=axis, **kw)

    def min(self, a, axis=None, **kw):
        if isinstance(a, _np.ndarray) and a.dtype == object:
            if axis is None:
                return _reduce(_min2, a.reshape(-1))
            return self._along(lambda v: _reduce(_min2, v), a, axis)
        return _np.min(a, axis=axis, **kw)

    amax = max
    amin = min

    def mean(self, a, axis=None, **kw):
        if isinstance(a, _np.ndarray) and a.dtype == object:
            if axis is None:
                return a.sum() / a.size if a.size else _np.float64('nan')
            return self._along(lambda v: self.mean(v), a, axis)
        return _np.mean(a, axis=axis, **kw)

    def std(self, a, axis=None, ddof=0, **kw):
        if isinstance(a, _np.ndarray) and a.dtype == object:
            if axis is None:
                return self.sqrt(self.var(a, ddof=ddof))
            return self._along(lambda v: self.std(v, ddof=ddof), a, axis)
        return _np.std(a, axis=axis, ddof=ddof, **kw)

    def var(self, a, axis=None, ddof=0, **kw):
        if isinstance(a, _np.ndarray) and a.dtype == object:
            if axis is None:
                m = a.sum() / a.size
                d = a - m
                return (d * d).sum() / (a.size - ddof)
            return self._along(lambda v: self.var(v, ddof=ddof), a, axis)
        return _np.var(a, axis=axis, ddof=ddof, **kw)

    def sum(self, a, axis=None, **kw):
        if isinstance(a, _np.ndarray) and a.dtype == object:
            if axis is None:
                return _view(a).sum()
            return self._along(lambda v: _view(v).sum(), a, axis)
        return _np.sum(a, axis=axis, **kw)

    def average(self, a, axis=None, weights=None, **kw):
        if isinstance(a, _np.ndarray) and a.dtype == object or (isinstance(weights, _np.ndarray) and weights.dtype == object):
            if isinstance(a, _np.ndarray) and a.ndim == 2 and axis in (-1, 1) and (weights is None or _np.ndim(weights) == 1):
                # row-wise (weighted) average, as used on sliding_window_view(...) by the windowed moving averages
                out = _np.empty(a.shape[0], dtype=object)
                for i in range(a.shape[0]):
                    out[i] = self.average(a[i], weights=weights)
                return out.view(ObjArr)
            if axis not in (None, 0) or (isinstance(a, _np.ndarray) and a.ndim != 1):
                raise NotImplementedError('average along an axis of an object array')
            if weights is None:
                return self.mean(a)
            num = _view(a * weights).sum()
            den = _view(_np.asarray(weights, dtype=object)).sum()
            return num / den
        return _np.average(a, axis=axis, weights=weights, **kw)

    def nanmax(self, a, axis=None, **kw):
        if isinstance(a, _np.ndarray) and a.dtype == object and axis is None:
            vals = [e for e in a.reshape(-1) if not sx._isnan(e)]
            return _reduce(_max2, vals) if vals else _np.float64('nan')
        return _np.nanmax(a, axis=axis, **kw)

    def nanmin(self, a, axis=None, **kw):
        if isinstance(a, _np.ndarray) and a.dtype == object and axis is None:
            vals = [e for e in a.reshape(-1) if not sx._isnan(e)]
            return _reduce(_min2, vals) if vals else _np.float64('nan')
        return _np.nanmin(a, axis=axis, **kw)

    def array_equal(self, a, b):
        return _np.array_equal(a, b)


def _max2(a, b):
    if sx._isnan(a) or sx._isnan(b):
        return _np.float64('nan')
    if sx.is_sym(a) or sx.is_sym(b):
        return sx.smax(a, b)
    return a if a >= b else b


def _min2(a, b):
    if sx._isnan(a) or sx._isnan(b):
        return _np.float64('nan')
    if sx.is_sym(a) or sx.is_sym(b):
        return sx.smin(a, b)
    return a if a <= b else b


def _reduce(f, xs):
    it = iter(xs)
    r = next(it)
    for x in it:
        r = f(r, x)
    return r


def _numpyfy(a):
    """python floats inside an object array become numpy float64 scalars (what a float64 array would hold)"""
    flat = a.reshape(-1)
    for i in range(flat.size):
        e = flat[i]
        if isinstance(e, (float, int)) and not isinstance(e, (bool, _np.generic)):
            flat[i] = _np.float64(e)
        elif isinstance(e, sx.SymReal) and not e.npf:
            flat[i] = sx.SymReal(e.t, True)
        elif isinstance(e, sx.SymInt):
            flat[i] = sx.SymReal(sx.real_term(e), True)
    return a


class _UFunc2:
    """binary ufunc stand-in with reduce / accumulate (np.maximum, np.minimum)"""

    def __init__(self, f, real):
        self.f = f
        self.real = real

    def __call__(self, a, b, **kw):
        if _has_sym(a) or _has_sym(b):
            return _map(self.f, a, b)
        return self.real(a, b, **kw)

    def reduce(self, a, axis=0, **kw):
        if isinstance(a, (list, tuple)):
            if any(_has_sym(x) for x in a):
                r = a[0]
                for x in a[1:]:
                    r = self(r, x)
                return r
            return self.real.reduce(a, axis=axis, **kw)
        if isinstance(a, _np.ndarray) and a.dtype == object:
            if a.ndim == 1:
                return _reduce(self.f, a)
            mv = _np.moveaxis(a, axis, 0)
            r = mv[0]
            for i in range(1, mv.shape[0]):
                r = self(r, mv[i])
            return r
        return self.real.reduce(a, axis=axis, **kw)

    def accumulate(self, a, axis=0, **kw):
        if isinstance(a, _np.ndarray) and a.dtype == object and a.ndim == 1:
            out = _np.empty(a.shape, dtype=object)
            r = None
            for i in range(a.shape[0]):
                r = a[i] if r is None else self.f(r, a[i])
                out[i] = r
            return _view(out)
        return self.real.accumulate(a, axis=axis, **kw)


NPShim.maximum = _UFunc2(_max2, _np.maximum)
NPShim.minimum = _UFunc2(_min2, _np.minimum)
NPShim.fmax = NPShim.maximum
NPShim.fmin = NPShim.minimum

SHIM = NPShim(always_object=True)
