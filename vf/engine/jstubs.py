"""Environment stubs for running jesse on proxy values.  Everything is installed IN MEMORY by
rebinding module globals; no file under /repo is changed.  Each stub is part of the claim of
every check that uses it (see DESIGN.md 2.3) and is listed in the evidence."""
import builtins
import importlib
import math
import sys

import numpy as _np

from . import symex as sx
from .npshim import SHIM

INSTALLED = []


def mod(name):
    """the MODULE object (jesse.models.Position etc. are shadowed by classes of the same name)"""
    importlib.import_module(name)
    return sys.modules[name]


# ---- builtins that must let proxies through ------------------------------------------------------


class _FloatMeta(type):
    def __instancecheck__(cls, x):
        return isinstance(x, builtins.float) or isinstance(x, sx.SymReal)


class pfloat(metaclass=_FloatMeta):
    """float() that returns proxies unchanged"""

    def __new__(cls, x=0.0):
        if isinstance(x, sx.SymReal):
            return x
        if isinstance(x, sx.SymInt):
            return sx.SymReal(sx.real_term(x))
        return builtins.float(x)


class _IntMeta(type):
    def __instancecheck__(cls, x):
        return isinstance(x, builtins.int) or isinstance(x, sx.SymInt)


class pint(metaclass=_IntMeta):
    def __new__(cls, x=0, *a):
        if isinstance(x, sx.SymInt):
            return x
        if isinstance(x, sx.SymReal):
            # int() truncates toward zero
            f = sx.sym_floor(x)
            return sx.ite(x >= 0, f, -sx.sym_floor(-x))
        return builtins.int(x, *a)


def pround(x, n=None):
    if sx.is_sym(x):
        return sx.sym_round(x, n)
    return builtins.round(x, n) if n is not None else builtins.round(x)


def pabs(x):
    return builtins.abs(x)


class _MathShim:
    def __getattr__(self, name):
        return getattr(math, name)

    @staticmethod
    def floor(x):
        return sx.sym_floor(x) if sx.is_sym(x) else math.floor(x)

    @staticmethod
    def ceil(x):
        return -sx.sym_floor(-x) if sx.is_sym(x) else math.ceil(x)

    @staticmethod
    def isnan(x):
        return False if sx.is_sym(x) else math.isnan(x)

    @staticmethod
    def sqrt(x):
        return sx.usqrt(x) if sx.is_sym(x) else math.sqrt(x)

    @staticmethod
    def log(x, *a):
        return sx.uapply('log', x) if sx.is_sym(x) else math.log(x, *a)

    @staticmethod
    def log10(x):
        return sx.uapply('log10', x) if sx.is_sym(x) else math.log10(x)

    @staticmethod
    def exp(x):
        return sx.uapply('exp', x) if sx.is_sym(x) else math.exp(x)

    @staticmethod
    def fabs(x):
        return sx.sabs(x) if sx.is_sym(x) else math.fabs(x)

    @staticmethod
    def pow(a, b):
        return a ** b


MATH = _MathShim()


def _noop(*a, **k):
    return None


# ---- installers ------------------------------------------------------------------------------------


def setattr_mod(modname, attr, value, note=None):
    m = mod(modname)
    setattr(m, attr, value)
    INSTALLED.append('%s.%s%s' % (modname, attr, (' (' + note + ')') if note else ''))


def install_np(modnames):
    for n in modnames:
        setattr_mod(n, 'np', SHIM, 'numpy shim')


def _exact(a, b, sign):
    # decimal arithmetic on the decimal values the operands denote: exact, also in the relaxed-float model
    if isinstance(a, sx.RelaxReal) or isinstance(b, sx.RelaxReal):
        t = sx.real_term(a) + sx.real_term(b) if sign > 0 else sx.real_term(a) - sx.real_term(b)
        return sx.RelaxReal(t, sx.SymReal._npf_of(a) or sx.SymReal._npf_of(b))
    return a + b if sign > 0 else a - b


def sym_sum_floats(real):
    def f(a, b):
        if sx.is_sym(a) or sx.is_sym(b):
            return _exact(a, b, 1)
        return real(a, b)
    return f


def sym_subtract_floats(real):
    def f(a, b):
        if sx.is_sym(a) or sx.is_sym(b):
            return _exact(a, b, -1)
        return real(a, b)
    return f


def install_core(silence_logger=True, stub_outputs=True):
    """stubs needed by every harness that drives Order/Position/Exchange/Strategy/simulator"""
    import jesse.utils as ju
    install_np(['jesse.libs.dynamic_numpy_array', 'jesse.strategies.Strategy', 'jesse.helpers', 'jesse.models.ClosedTrade',
                'jesse.models.Position', 'jesse.store.state_completed_trades', 'jesse.store.state_candles', 'jesse.services.candle'])
    for m in ('jesse.models.Position', 'jesse.models.SpotExchange'):
        setattr_mod(m, 'sum_floats', sym_sum_floats(ju.sum_floats), 'exact + on proxies, real function on floats')
        setattr_mod(m, 'subtract_floats', sym_subtract_floats(ju.subtract_floats), 'exact - on proxies, real function on floats')
    fe = mod('jesse.models.FuturesExchange')
    if hasattr(fe.find_order_index, 'py_func'):
        setattr_mod('jesse.models.FuturesExchange', 'find_order_index', fe.find_order_index.py_func, 'numba kernel -> its python source')
    setattr_mod('jesse.config', 'float', pfloat, 'float() passes proxies')
    setattr_mod('jesse.config', 'int', pint, 'int() passes proxies')
    setattr_mod('jesse.store.state_candles', 'int', pint, 'int() passes proxies')
    setattr_mod('jesse.helpers', 'float', pfloat)
    setattr_mod('jesse.helpers', 'round', pround)
    setattr_mod('jesse.helpers', 'math', MATH)
    if silence_logger:
        lg = mod('jesse.services.logger')
        lg.info = _noop
        lg.error = _noop
        INSTALLED.append('jesse.services.logger.info/error (no-ops)')
    if stub_outputs:
        bm = mod('jesse.modes.backtest_mode')
        bm._generate_outputs = lambda *a, **k: {'metrics': None}
        INSTALLED.append('jesse.modes.backtest_mode._generate_outputs (returns no metrics; metrics are the subject of C16)')


def reset_process_state():
    """what a fresh process would have: empty config cache.  (C11 does NOT call this between sessions.)"""
    import jesse.helpers as jh
    jh.CACHED_CONFIG.clear()
