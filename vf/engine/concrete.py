"""ConcreteCtx: the harness API of PathCtx on plain floats/ints - used to replay a solver model against the
unpatched code (real numpy float64 arrays, compiled numba kernels, real Decimal helpers)."""
import numpy as np


class ReplayAssumeFailed(Exception):
    pass


class ConcreteCtx:
    concrete = True

    def __init__(self, model):
        self.model = dict(model)
        self.failed = []
        self.passed = 0
        self.events = {}
        self.reached = {}
        self.inputs = {}
        self.notes = []
        self.opts = {}

    def real(self, name, lo=None, hi=None, npf=False, lo_strict=False, hi_strict=False):
        if name not in self.model:
            # an input created after the violated obligation: any admissible value will do
            self.model[name] = (lo + hi) / 2.0 if (lo is not None and hi is not None) else (lo if lo is not None else (hi if hi is not None else 1.0))
        v = float(self.model[name])
        if lo is not None and (v < lo or (lo_strict and v == lo)):
            raise ReplayAssumeFailed('%s=%r below bound' % (name, v))
        if hi is not None and (v > hi or (hi_strict and v == hi)):
            raise ReplayAssumeFailed('%s=%r above bound' % (name, v))
        self.inputs[name] = v
        return np.float64(v) if npf else v

    def int(self, name, lo=None, hi=None):
        if name not in self.model:
            self.model[name] = lo if lo is not None else (hi if hi is not None else 0)
        v = int(self.model[name])
        if (lo is not None and v < lo) or (hi is not None and v > hi):
            raise ReplayAssumeFailed('%s=%r outside bound' % (name, v))
        self.inputs[name] = v
        return v

    def bool(self, name):
        v = bool(self.model.get(name, False))
        self.inputs[name] = v
        return v

    def assume(self, c):
        if not bool(c):
            raise ReplayAssumeFailed('assumption false for the rounded model')

    constrain = assume

    def event(self, name, n=1):
        self.events[name] = self.events.get(name, 0) + n

    def reach(self, label):
        self.reached[label] = self.reached.get(label, 0) + 1

    def prove(self, c, label, info=None, timeout_ms=None, witness=None):
        self.reach(label)
        if bool(c):
            self.passed += 1
            return True
        self.failed.append({'label': label, 'info': info or {}})
        return False

    def find(self, c, timeout_ms=None):
        return dict(self.model) if bool(c) else None

    def get_model(self):
        return dict(self.model)

    def equal(self, a, b, tol=1e-9):
        if a is None or b is None:
            return a is None and b is None
        if isinstance(a, str) or isinstance(b, str):
            return a == b
        try:
            fa, fb = float(a), float(b)
        except (TypeError, ValueError):
            return a == b
        if fa != fa or fb != fb:
            return fa != fa and fb != fb
        if fa in (float('inf'), float('-inf')) or fb in (float('inf'), float('-inf')):
            return fa == fb
        return abs(fa - fb) <= tol * max(1.0, abs(fa), abs(fb))

    @property
    def solver(self):
        return _NullSolver()


class _NullSolver:
    def add(self, *a):
        pass


def replay_harness(fn, kwargs, model, want_label=None):
    """run harness fn concretely; returns (reproduced, message)"""
    ctx = ConcreteCtx(model)
    try:
        fn(ctx, **kwargs)
    except ReplayAssumeFailed as e:
        return False, 'replay: %s' % e
    labels = [f['label'] for f in ctx.failed]
    if want_label is not None:
        hit = [f for f in ctx.failed if f['label'] == want_label]
        if hit:
            return True, 'replay on the real code: obligation %s fails: %r (all failing: %s)' % (want_label, hit[0]['info'], sorted(set(labels)))
        if ctx.failed:
            return True, 'replay on the real code: other obligations fail: %s' % sorted(set(labels))
        return False, 'replay on the real code: all %d obligations hold for the concrete model' % ctx.passed
    return bool(ctx.failed), 'failing obligations: %s' % sorted(set(labels))


def digest_harness(fn, kwargs, model):
    """run harness fn concretely and summarise what it observed (events, obligations) - used to compare the stubbed pipeline
    with the unpatched one on the same concrete inputs"""
    ctx = ConcreteCtx(model)
    try:
        fn(ctx, **kwargs)
    except ReplayAssumeFailed as e:
        return {'assume_failed': str(e)}
    except Exception as e:  # noqa
        return {'exception': type(e).__name__}
    return {'events': dict(sorted(ctx.events.items())), 'passed': ctx.passed, 'failed': sorted(set(f['label'] for f in ctx.failed)),
            'reached': sorted(ctx.reached)}
