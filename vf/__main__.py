import sys
from .runner import main
sys.exit(main(sys.argv[1:]))
