import os

# the tree under analysis; the registered commands always use /repo (VF_REPO is only for trying the checks on a scratch worktree)
REPO = os.environ.get('VF_REPO', '/repo').rstrip('/')
