"""C12 - fast mode reproduces the normal simulation when fills are unambiguous (H-2RUN product)."""
import numpy as np

from ..engine import symex as sx
from ..engine.explore import Job
from ..engine.concrete import replay_harness
from . import session as S
from .common import And, Or, Not, Implies, close_to
from .c07 import TFMIN, chain_rows

ID = 'C12'


def _template(ctx, kind, side, exch='futures', data=(), rows=None, k=3):
    long = side == 'long'
    if kind == 'T1e1':
        # enters at market at the second execution of the strategy (the end of the second chunk) with symbolic exits on either
        # side of that price: whatever the first minutes of the previous chunk did (a spike that reverted inside the chunk) must
        # not reach them in the chunk that follows
        pent = rows[2 * k - 1][2]
        sl = ctx.real('sl', 50, 200)
        tp = ctx.real('tp', 50, 200)
        ctx.constrain(And(sl < pent - 1, tp > pent + 1) if long else And(sl > pent + 1, tp < pent - 1))
        return S.make_template(side=side, entry=None, stop=sl, take=tp, qty=1.0, name='T1e1', entry_step=1)
    if kind == 'T7d':
        # the entry decision reads the data route: enter at market when the last completed candle of the (largest) data-route
        # timeframe is bullish (long) / bearish (short); exits far away
        dtf = sorted(data, key=lambda x: TFMIN[x])[-1]
        T = S.make_template(side=side, entry=None, stop=(40.0 if long else 160.0), take=(160.0 if long else 40.0), qty=1.0, name='T7d')
        base_long, base_short = T.should_long, T.should_short

        def cond(self):
            c = self.get_candles(self.exchange, self.symbol, dtf)
            if len(c) < 2:
                return False
            return bool(c[-2][2] > c[-2][1]) if long else bool(c[-2][2] < c[-2][1])
        T.should_long = lambda self: base_long(self) and cond(self)
        T.should_short = lambda self: base_short(self) and cond(self)
        return T
    if kind == 'T1':
        pe = ctx.real('pe', 50, 200)
        sl = ctx.real('sl', 50, 200)
        tp = ctx.real('tp', 50, 200)
        # exits spaced wider than a trading candle can move: at least 30 apart from the entry on each side, candles move < 20
        ctx.constrain(And(sl < pe - 30, tp > pe + 30, pe > 85, pe < 115) if long else And(sl > pe + 30, tp < pe - 30, pe > 85, pe < 115))
        return S.make_template(side=side, entry=pe, stop=sl, take=tp, qty=1.0, name='T1', on_open_exits=(exch == 'spot'),
                               exit_qty_from_position=(exch == 'spot'))
    if kind == 'T1late':
        # enters at market at the third execution of the strategy (index 2): with 7 or 8 one-minute candles on a 3m route that
        # execution never happens in the normal simulator (the third candle does not complete)
        return S.make_template(side=side, entry=None, stop=(40.0 if long else 160.0), take=(160.0 if long else 40.0), qty=1.0,
                               name='T1late', entry_step=2)
    if kind == 'T1h':
        # the take-profit is declared in on_open_position and priced from a position-dependent value read inside that hook
        # (tp + position.pnl: pnl is 0 at the moment of the entry fill, whatever the rest of the minute does)
        pe = ctx.real('pe', 50, 200)
        sl = ctx.real('sl', 50, 200)
        tp = ctx.real('tp', 50, 200)
        ctx.constrain(And(sl < pe - 30, tp > pe + 30, pe > 85, pe < 115) if long else And(sl > pe + 30, tp < pe - 30, pe > 85, pe < 115))

        def price_from_pnl(s, order):
            s.take_profit = (1.0, tp + s.position.pnl)
        return S.make_template(side=side, entry=pe, stop=sl, take=tp, qty=1.0, name='T1h', on_open_exits=True,
                               extra_hooks={'on_open_position': price_from_pnl})
    if kind == 'T1n':  # exits declared relative to nothing: may land near the current price (market exit from a hook)
        pe = ctx.real('pe', 50, 200)
        sl = ctx.real('sl', 50, 200)
        tp = ctx.real('tp', 50, 200)
        ctx.constrain(And(sl < pe, pe < tp) if long else And(tp < pe, pe < sl))
        return S.make_template(side=side, entry=pe, stop=sl, take=tp, qty=1.0, name='T1n')
    if kind == 'T3':
        sl = ctx.real('sl', 50, 200)
        t1 = ctx.real('t1', 50, 200)
        t2 = ctx.real('t2', 50, 200)
        ctx.constrain(And(sl < 70, t1 > 130, t2 > t1 + 30) if long else And(sl > 130, t1 < 85, t2 < t1 - 30))
        return S.make_template(side=side, entry=None, stop=[(2.0, sl)], take=[(1.0, t1), (1.0, t2)], qty=2.0, name='T3',
                               reduced_stop=lambda s: [(abs(s.position.qty), sl)])
    raise ValueError(kind)


def trace(rec):
    fills = []
    for (kind, t, pl) in rec.events:
        if kind == 'fill':
            od = pl['order']
            fills.append({'side': od.side, 'type': od.type, 'qty': od.qty, 'price': od.price, 'time': t, 'reduce_only': od.reduce_only,
                          'via': od.submitted_via})
    trades = [{'type': t.type, 'qty': t.qty, 'entry': t.entry_price, 'exit': t.exit_price, 'opened_at': t.opened_at, 'closed_at': t.closed_at,
               'n_orders': len(t.orders)} for t in rec.refs['trades']]
    ex = rec.refs['exchange_obj']
    bal = dict(ex.assets)
    return fills, trades, bal


def h_pair(ctx, n=6, tf='3m', kind='T1', side='long', exch='futures', data=(), sym=(4,), move=20, gaps=()):
    """normal then fast run of the same symbolic session on one path.  Minutes listed in `sym` are symbolic; the others are
    flat at the previous close."""
    rows = S.sparse_rows(ctx, n, list(sym), move=move, gaps=list(gaps))
    T = _template(ctx, kind, side, exch, data, rows=rows, k=TFMIN[tf])
    cfg = S.config_dict(exch, leverage=2, mode='cross', fee=0.001, balance=10000.0)
    droutes = [(S.SYMBOL, t) for t in data]
    rec_n = S.run_session(S.make_candles(rows), T, cfg, timeframe=tf, data_routes=droutes, fast=False)
    rec_f = S.run_session(S.make_candles(rows), T, cfg, timeframe=tf, data_routes=droutes, fast=True)
    fn, tn, bn = trace(rec_n)
    ff, tf_, bf = trace(rec_f)
    # precondition, evaluated on the normal run
    k = TFMIN[tf] * S.MIN
    span_counts = {}
    for f in fn:
        if f['type'] != 'MARKET':
            span = (f['time'] - S.MIN - S.T0) // k if not sx.is_sym(f['time']) else None
            span_counts[span] = span_counts.get(span, 0) + 1
    liq = any(pre['post']['total_liq'] != pre['total_liq'] for pre in rec_n.liq)
    if liq or any(v > 1 for v in span_counts.values()):
        ctx.event('outside-precondition')
        return
    ctx.event('inside-precondition')
    hook_market = any(f['type'] == 'MARKET' and f['via'] is not None for f in fn)
    flags = {'path_has_market_exit_from_hook': hook_market}
    if not ctx.prove(len(fn) == len(ff), 'C12:same-number-of-executed-orders', dict(flags, normal=len(fn), fast=len(ff))):
        return
    for i, (a, b) in enumerate(zip(fn, ff)):
        ctx.prove(a['side'] == b['side'] and a['type'] == b['type'] and a['reduce_only'] == b['reduce_only'], 'C12:same-order-side-and-type',
                  dict(flags, i=i))
        ctx.prove(And(ctx.equal(a['qty'], b['qty']), ctx.equal(a['price'], b['price'])), 'C12:same-order-qty-and-price', dict(flags, i=i, type=a['type']))
        ctx.prove(a['time'] == b['time'], 'C12:same-fill-minute', dict(flags, i=i, type=a['type'], normal=a['time'], fast=b['time']))
        ctx.event('fill-compared')
    if ctx.prove(len(tn) == len(tf_), 'C12:same-number-of-closed-trades', dict(flags)):
        for i, (a, b) in enumerate(zip(tn, tf_)):
            ctx.prove(a['type'] == b['type'] and a['n_orders'] == b['n_orders'] and a['opened_at'] == b['opened_at'] and a['closed_at'] == b['closed_at'],
                      'C12:same-closed-trade-structure-and-times', dict(flags, i=i))
            ctx.prove(And(ctx.equal(a['qty'], b['qty']), ctx.equal(a['entry'], b['entry']), ctx.equal(a['exit'], b['exit'])),
                      'C12:same-closed-trade-values', dict(flags, i=i))
            ctx.event('trade-compared')
    ctx.prove(And(*[close_to(bn[kx], bf[kx], 10000.0) for kx in bn]), 'C12:same-final-balances', dict(flags))
    ctx.event('pair-compared')


JOBFN = {'h_pair': h_pair}


def _jobs(tier):
    jobs = []

    def add(**kw):
        jobs.append(Job('pair_' + '_'.join(str(v).replace(' ', '') for v in kw.values()), h_pair, kw, {'max_decisions': 6000}))
    if tier == 'quick':
        add(n=6, tf='3m', kind='T1', side='long', sym=[1, 4])
        add(n=6, tf='3m', kind='T1', side='short', sym=[2, 4])
        add(n=6, tf='3m', kind='T3', side='long', sym=[1, 4])
        add(n=6, tf='3m', kind='T1', side='long', sym=[4], gaps=[4])
        add(n=6, tf='3m', kind='T1', side='short', sym=[5], gaps=[5])
        add(n=9, tf='3m', kind='T7d', side='long', data=['5m'], sym=[2, 7])  # data route that is not a multiple of the trading timeframe
        add(n=9, tf='3m', kind='T1h', side='long', sym=[1, 4, 7])  # an order priced from position.pnl read in the fill hook
        add(n=7, tf='3m', kind='T1', side='long', sym=[1, 4, 6])  # session length that is not a multiple of the trading timeframe
        add(n=8, tf='3m', kind='T1late', side='long', sym=[4, 7])  # a strategy that would act on the trailing, still forming candle
        add(n=9, tf='3m', kind='T1e1', side='long', sym=[3, 4])  # a spike in the first minute of a chunk that reverts inside it (seed C12e)
    else:
        for side in ('long', 'short'):
            add(n=6, tf='3m', kind='T1', side=side, sym=[1, 4])
            add(n=6, tf='3m', kind='T1', side=side, sym=[2, 3])
            add(n=9, tf='3m', kind='T1', side=side, sym=[1, 4, 7])
            add(n=6, tf='3m', kind='T3', side=side, sym=[1, 4])
            add(n=10, tf='5m', kind='T1', side=side, sym=[3, 7])
        add(n=6, tf='3m', kind='T1', side='long', exch='spot', sym=[1, 4])
        for side in ('long', 'short'):
            add(n=6, tf='3m', kind='T1', side=side, sym=[1, 4], gaps=[4])
            add(n=6, tf='3m', kind='T1', side=side, sym=[2, 5], gaps=[5])
            add(n=6, tf='3m', kind='T1', side=side, sym=[3, 4], gaps=[3, 4])
            add(n=10, tf='5m', kind='T1', side=side, sym=[7], gaps=[7])
        add(n=15, tf='3m', kind='T1', side='long', data=['15m'], sym=[1, 4])
        add(n=9, tf='3m', kind='T1h', side='long', sym=[1, 4, 7])
        add(n=7, tf='3m', kind='T1', side='long', sym=[1, 4, 6])
        add(n=8, tf='3m', kind='T1', side='short', sym=[2, 5, 7])
        add(n=8, tf='3m', kind='T1late', side='long', sym=[4, 7])
        add(n=7, tf='3m', kind='T1late', side='short', sym=[3, 6])
        for side in ('long', 'short'):
            add(n=9, tf='3m', kind='T1e1', side=side, sym=[3, 4])
            add(n=9, tf='3m', kind='T1e1', side=side, sym=[3, 5, 7])
        add(n=15, tf='5m', kind='T1e1', side='long', sym=[5, 6])
        add(n=9, tf='3m', kind='T1h', side='short', sym=[2, 4, 8])
        add(n=9, tf='3m', kind='T7d', side='long', data=['5m'], sym=[2, 7])
        add(n=12, tf='3m', kind='T7d', side='short', data=['5m'], sym=[3, 6, 8])
        add(n=15, tf='5m', kind='T7d', side='long', data=['15m'], sym=[3, 12])
        add(n=12, tf='3m', kind='T7d', side='long', data=['5m', '15m'], sym=[2, 7])
        add(n=6, tf='3m', kind='T1', side='long', sym=[3, 4, 5], move=8)
    return jobs


def setup(tier, seed):
    from ..engine import jstubs
    jstubs.install_core()
    S.install_monitors()
    jobs = _jobs(tier)
    return {
        'jobs': jobs,
        'budget_s': 780 if tier == 'quick' else 3300,
        'explanation': 'product program: the same symbolic single-symbol session runs through fast_mode=False and then fast_mode=True on one path (shared '
                       'symbols); the precondition (at most one resting-order fill per trading-candle span, no liquidation) is evaluated on the normal '
                       'run; z3 then proves executed orders (side, type, qty, price, fill minute), closed trades and final balances equal. Paths outside '
                       'the precondition are counted.',
        'bounds': {'trading_timeframes': sorted({j.kwargs['tf'] for j in jobs}), 'symbolic_minutes': 'two or three per session (others flat at the previous close), range < 20',
                   'templates': sorted({j.kwargs['kind'] for j in jobs}),
                   'data_routes': 'none; 15m; 5m next to a 3m trading route (not a multiple), with a strategy (T7d) whose entry reads the data route'},
        'outside': ['more than 3 symbolic minutes', 'timeframes above 5m for the trading route (15m as a data route)', 'several symbols', 'float rounding'],
        'stubs': list(jstubs.INSTALLED),
        'assumptions': ['floats as reals', 'exits at least 30 away from the entry while a symbolic minute moves less than 20 (the statement\'s "spaced wider than a trading candle can move")'],
        'must_reach': ['inside-precondition', 'fill-compared', 'trade-compared', 'pair-compared'],
    }


def signature(v):
    info = v.get('info') or {}
    sig = v['label']
    if info.get('path_has_market_exit_from_hook'):
        sig += '|market-order-submitted-by-a-hook-inside-a-chunk'
    return sig


def make_witness(v):
    return {'fn': 'h_pair', 'kwargs': v['bounds'], 'label': v['label'], 'model': v['model'], 'info': v.get('info')}


def replay(w):
    S.install_monitors()
    return replay_harness(JOBFN[w['fn']], w['kwargs'], w['model'], w['label'])
