"""C04 - spot balances equal a cash-account model; no overspending or overselling (H-API)."""
import numpy as np

from ..engine import symex as sx
from ..engine.explore import Job
from ..engine.concrete import replay_harness
from . import session as S
from .apih import ApiSession
from .common import And, Or, Not, Implies

ID = 'C04'
SYM = S.SYMBOL


def _min(a, b):
    return sx.smin(a, b) if (sx.is_sym(a) or sx.is_sym(b)) else min(a, b)


class CashModel:
    def __init__(self, quote, fee):
        self.quote = quote
        self.base = 0.0
        self.fee = fee

    def submit_ok(self, side, typ, q, p, resting):
        """returns the condition under which the order must be REJECTED"""
        if side == 'buy':
            return q * p > self.quote
        kind = 'LIMIT' if typ in ('MARKET', 'LIMIT') else 'STOP'
        tot = q
        for (t, rq) in resting:
            if t == kind:
                tot = tot + rq
        return tot > self.base

    def on_submit(self, side, q, p):
        if side == 'buy':
            self.quote = self.quote - q * p

    def on_cancel(self, side, q, p):
        if side == 'buy':
            self.quote = self.quote + q * p

    def on_fill(self, side, q, p):
        if side == 'buy':
            self.base = self.base + q * (1 - self.fee)
        else:
            sold = _min(q, self.base)
            self.base = self.base - sold
            self.quote = self.quote + sold * p * (1 - self.fee)


def resting_sells(api):
    return [(o.type, abs(o.qty) if not sx.is_sym(o.qty) else sx.sabs(o.qty)) for o in api.orders
            if o is not None and o.is_active and o.side == 'sell' and o.type in ('LIMIT', 'STOP')]


def compare(ctx, api, model, tag):
    ex = api.exchange
    ctx.prove(ctx.equal(ex.assets['USDT'], model.quote), 'C04:quote-balance', {'after': tag})
    ctx.prove(ctx.equal(ex.assets['BTC'], model.base), 'C04:base-balance', {'after': tag})
    ctx.prove(ctx.equal(api.positions[SYM].qty, model.base), 'C04:position-qty-equals-base', {'after': tag})
    ctx.prove(And(ex.assets['USDT'] >= 0, ex.assets['BTC'] >= 0), 'C04:no-negative-balance', {'after': tag})
    ctx.prove(api.positions[SYM].qty >= 0, 'C04:no-short-position', {'after': tag})


def h_history(ctx, skeleton=()):
    """ops: ['S', side, type, reduce_only] / ['X', k] / ['C', k]"""
    from jesse.exceptions import InsufficientBalance
    bal = ctx.real('balance', 100, 100000)
    fee = ctx.real('fee', 0, 0.01)
    cfg = S.config_dict('spot', fee=fee, balance=bal)
    api = ApiSession(cfg, symbols=(SYM,), price0=100.0)
    model = CashModel(bal, fee)
    cur = 100.0
    nsub = 0
    compare(ctx, api, model, 'init')
    seen_cancelled = set()

    def sync_cancels():
        # cancellations performed by the strategy layer (it cancels undeclared resting entries when a position opens and
        # everything when it closes) are fed to the model like explicit ones
        for o in api.orders:
            if o is not None and o.is_canceled and id(o) not in seen_cancelled:
                seen_cancelled.add(id(o))
                model.on_cancel(o.side, abs(o.qty) if not sx.is_sym(o.qty) else sx.sabs(o.qty), o.price)
                ctx.event('cancel-' + o.side)

    for step, op in enumerate(skeleton):
        tag = '%d:%s' % (step, ''.join(str(x) for x in op))
        if op[0] == 'S':
            side, typ, ro = op[1], op[2], bool(op[3])
            q = ctx.real('q%d' % nsub, 0.001, 100)
            pr = ctx.real('p%d' % nsub, 1, 1000) if typ != 'MARKET' else cur
            nsub += 1
            must_reject = model.submit_ok(side, typ, q, pr, resting_sells(api))
            try:
                api.submit(SYM, side, typ, q, pr, ro)
                raised = False
            except InsufficientBalance:
                raised = True
                api.orders.append(None)
            ctx.prove(must_reject if raised else Not(must_reject), 'C04:rejected-iff-overspend-or-oversell', {'after': tag})
            if raised:
                ctx.event('rejected-submission')
                return
            model.on_submit(side, q, pr)
        elif op[0] == 'C':
            o = api.orders[op[1]]
            if o is None or not o.is_active:
                ctx.event('op-on-final-order-skipped')
                return
            o.cancel()
        elif op[0] == 'X':
            o = api.orders[op[1]]
            if o is None or not o.is_active:
                ctx.event('op-on-final-order-skipped')
                return
            api.set_price(SYM, o.price)
            cur = o.price
            api.tick()
            model.on_fill(o.side, abs(o.qty) if not sx.is_sym(o.qty) else sx.sabs(o.qty), o.price)
            o.execute()
            ctx.event('fill-' + o.side)
        sync_cancels()
        compare(ctx, api, model, tag)
    ctx.event('history-complete')


def skeletons(length, types=('LIMIT', 'STOP', 'MARKET'), ros=(1,)):
    out = []

    def rec(prefix, nsub, live):
        if len(prefix) == length:
            out.append(list(prefix))
            return
        for side in ('buy', 'sell'):
            for typ in types:
                for ro in (ros if side == 'sell' else (0,)):
                    rec(prefix + [['S', side, typ, ro]], nsub + 1, live | {nsub})
        for k in sorted(live):
            rec(prefix + [['X', k]], nsub, live - {k})
            rec(prefix + [['C', k]], nsub, live - {k})

    rec([], 0, frozenset())
    # a history that never buys cannot sell anything: keep those that start with a buy
    return [s for s in out if s[0][1] == 'buy']


JOBFN = {'h_history': h_history}


def _name(s):
    return '.'.join(''.join(str(x)[0] if isinstance(x, str) else str(x) for x in op) for op in s)


def _jobs(tier):
    jobs = []
    sk = []
    for n in (2, 3):
        sk += skeletons(n)
    sk += skeletons(4, types=('LIMIT', 'STOP'))
    targeted = [
        # cancel-then-resubmit of sells (the statement: also after any number of earlier cancellations)
        [['S', 'buy', 'MARKET', 0], ['X', 0], ['S', 'sell', 'LIMIT', 1], ['C', 1], ['S', 'sell', 'LIMIT', 1]],
        [['S', 'buy', 'MARKET', 0], ['X', 0], ['S', 'sell', 'STOP', 1], ['C', 1], ['S', 'sell', 'STOP', 1]],
        [['S', 'buy', 'MARKET', 0], ['X', 0], ['S', 'sell', 'LIMIT', 1], ['C', 1], ['S', 'sell', 'MARKET', 1]],
        [['S', 'buy', 'LIMIT', 0], ['X', 0], ['S', 'sell', 'LIMIT', 1], ['S', 'sell', 'LIMIT', 1], ['C', 1], ['S', 'sell', 'LIMIT', 1]],
        [['S', 'buy', 'LIMIT', 0], ['X', 0], ['S', 'sell', 'LIMIT', 1], ['S', 'sell', 'STOP', 1], ['X', 1], ['X', 2]],
        [['S', 'buy', 'LIMIT', 0], ['X', 0], ['S', 'sell', 'LIMIT', 0], ['S', 'sell', 'STOP', 0], ['X', 1], ['X', 2]],
        [['S', 'buy', 'LIMIT', 0], ['C', 0], ['S', 'buy', 'LIMIT', 0], ['X', 1], ['S', 'sell', 'MARKET', 1], ['X', 2]],
        [['S', 'buy', 'LIMIT', 0], ['S', 'buy', 'STOP', 0], ['X', 0], ['C', 1], ['S', 'buy', 'MARKET', 0]],
    ]
    B, X = ['S', 'buy', 'MARKET', 0], 'X'
    for first, second in (('LIMIT', 'STOP'), ('STOP', 'LIMIT')):
        for probe in ('LIMIT', 'STOP', 'MARKET'):
            # buy, two sells of different kinds both filled (the second is clamped to what is left), buy again, probe sell
            targeted.append([B, ['X', 0], ['S', 'sell', first, 1], ['S', 'sell', second, 1], ['X', 1], ['X', 2], B, ['X', 3], ['S', 'sell', probe, 1]])
            # the same with the first sell cancelled instead of filled
            targeted.append([B, ['X', 0], ['S', 'sell', first, 1], ['S', 'sell', second, 1], ['C', 1], ['X', 2], B, ['X', 3], ['S', 'sell', probe, 1]])
    sk += targeted
    if tier != 'quick':
        sk += skeletons(5, types=('LIMIT',))
        sk += [s for s in skeletons(4, types=('LIMIT', 'MARKET'), ros=(0, 1))]
    seen = set()
    for s in sk:
        nm = _name(s)
        if nm in seen:
            continue
        seen.add(nm)
        jobs.append(Job('hist_' + nm, h_history, {'skeleton': s}, {'nlsat_fallback': True, 'prove_timeout_ms': 15000}))
    return jobs


def setup(tier, seed):
    from ..engine import jstubs
    jstubs.install_core()
    S.install_monitors()
    jobs = _jobs(tier)
    return {
        'jobs': jobs,
        'budget_s': 900 if tier == 'quick' else 3300,
        'explanation': 'bounded submit/execute/cancel histories on the real Sandbox driver, Order, Position and SpotExchange (passive strategy '
                       'attached); balance, fee, quantities, prices symbolic; after every operation z3 proves quote and base balances and the '
                       'position size equal to the cash-account model, no negative balance, no short, and InsufficientBalance raised iff a buy '
                       'exceeds the free quote or a sell plus the resting sells of its kind exceeds the base held.',
        'bounds': {'skeletons': len(jobs), 'history_length': '2-4 exhaustive (5 for LIMIT-only in thorough) + targeted cancel/resubmit histories of length 5-6',
                   'values': 'qty in [0.001,100], price in [1,1000], fee in [0,0.01], balance in [100,1e5]'},
        'outside': ['histories longer than 6', 'float rounding and the Decimal helpers (modelled as exact +,-; see C17)', 'several symbols'],
        'stubs': list(jstubs.INSTALLED),
        'assumptions': ['floats as reals', 'a sell fill larger than the base held debits what is held (the only reading consistent with "never negative")'],
        'must_reach': ['C04:rejected-iff-overspend-or-oversell', 'rejected-submission', 'fill-buy', 'fill-sell', 'cancel-buy', 'cancel-sell'],
    }


def signature(v):
    sk = v.get('bounds', {}).get('skeleton', [])
    # signature of the known double-release defect: a sell was cancelled earlier in the history
    cancelled_sell = False
    subs = []
    for op in sk:
        if op[0] == 'S':
            subs.append(op)
        elif op[0] == 'C' and op[1] < len(subs) and subs[op[1]][1] == 'sell' and subs[op[1]][2] in ('LIMIT', 'STOP'):
            cancelled_sell = True
    return v['label'] + ('|after-cancelled-resting-sell' if cancelled_sell else '')


def make_witness(v):
    return {'fn': 'h_history', 'kwargs': v['bounds'], 'label': v['label'], 'model': v['model'], 'info': v.get('info')}


def replay(w):
    S.install_monitors()
    return replay_harness(JOBFN[w['fn']], w['kwargs'], w['model'], w['label'])
