"""C04 - spot balances equal a cash-account model; no overspending or overselling (H-API)."""
import numpy as np

from ..engine import symex as sx
from ..engine.explore import Job
from ..engine.concrete import replay_harness
from . import session as S
from .apih import ApiSession
from .common import And, Or, Not, Implies

ID = 'C04'
SYM = S.SYMBOL


def _min(a, b):
    return sx.smin(a, b) if (sx.is_sym(a) or sx.is_sym(b)) else min(a, b)


class CashModel:
    def __init__(self, quote, fee):
        self.quote = quote
        self.base = 0.0
        self.fee = fee

    def submit_ok(self, side, typ, q, p, resting):
        """returns the condition under which the order must be REJECTED"""
        if side == 'buy':
            return q * p > self.quote
        kind = 'LIMIT' if typ in ('MARKET', 'LIMIT') else 'STOP'
        tot = q
        for (t, rq) in resting:
            if t == kind:
                tot = tot + rq
        return tot > self.base

    def on_submit(self, side, q, p):
        if side == 'buy':
            self.quote = self.quote - q * p

    def on_cancel(self, side, q, p):
        if side == 'buy':
            self.quote = self.quote + q * p

    def on_fill(self, side, q, p):
        if side == 'buy':
            self.base = self.base + q * (1 - self.fee)
        else:
            sold = _min(q, self.base)
            self.base = self.base - sold
            self.quote = self.quote + sold * p * (1 - self.fee)


def resting_sells(api):
    return [(o.type, abs(o.qty) if not sx.is_sym(o.qty) else sx.sabs(o.qty)) for o in api.orders
            if o is not None and o.is_active and o.side == 'sell' and o.type in ('LIMIT', 'STOP')]


def compare(ctx, api, model, tag):
    ex = api.exchange
    ctx.prove(ctx.equal(ex.assets['USDT'], model.quote), 'C04:quote-balance', {'after': tag})
    ctx.prove(ctx.equal(ex.assets['BTC'], model.base), 'C04:base-balance', {'after': tag})
    ctx.prove(ctx.equal(api.positions[SYM].qty, model.base), 'C04:position-qty-equals-base', {'after': tag})
    ctx.prove(And(ex.assets['USDT'] >= 0, ex.assets['BTC'] >= 0), 'C04:no-negative-balance', {'after': tag})
    ctx.prove(api.positions[SYM].qty >= 0, 'C04:no-short-position', {'after': tag})


def h_history(ctx, skeleton=()):
    """ops: ['S', side, type, reduce_only] / ['X', k] / ['C', k]"""
    from jesse.exceptions import InsufficientBalance
    bal = ctx.real('balance', 100, 100000)
    fee = ctx.real('fee', 0, 0.01)
    cfg = S.config_dict('spot', fee=fee, balance=bal)
    api = ApiSession(cfg, symbols=(SYM,), price0=100.0)
    model = CashModel(bal, fee)
    cur = 100.0
    nsub = 0
    compare(ctx, api, model, 'init')
    seen_cancelled = set()

    def sync_cancels():
        # cancellations performed by the strategy layer (it cancels undeclared resting entries when a position opens and
        # everything when it closes) are fed to the model like explicit ones
        for o in api.orders:
            if o is not None and o.is_canceled and id(o) not in seen_cancelled:
                seen_cancelled.add(id(o))
                model.on_cancel(o.side, abs(o.qty) if not sx.is_sym(o.qty) else sx.sabs(o.qty), o.price)
                ctx.event('cancel-' + o.side)

    for step, op in enumerate(skeleton):
        tag = '%d:%s' % (step, ''.join(str(x) for x in op))
        if op[0] == 'S':
            side, typ, ro = op[1], op[2], bool(op[3])
            q = ctx.real('q%d' % nsub, 0.001, 100)
            pr = ctx.real('p%d' % nsub, 1, 1000) if typ != 'MARKET' else cur
            nsub += 1
            must_reject = model.submit_ok(side, typ, q, pr, resting_sells(api))
            try:
                api.submit(SYM, side, typ, q, pr, ro)
                raised = False
            except InsufficientBalance:
                raised = True
                api.orders.append(None)
            ctx.prove(must_reject if raised else Not(must_reject), 'C04:rejected-iff-overspend-or-oversell', {'after': tag})
            if raised:
                ctx.event('rejected-submission')
                return
            model.on_submit(side, q, pr)
        elif op[0] == 'C':
            o = api.orders[op[1]]
            if o is None or not o.is_active:
                ctx.event('op-on-final-order-skipped')
                return
            o.cancel()
        elif op[0] == 'X':
            o = api.orders[op[1]]
            if o is None or not o.is_active:
                ctx.event('op-on-final-order-skipped')
                return
            api.set_price(SYM, o.price)
            cur = o.price
            api.tick()
            model.on_fill(o.side, abs(o.qty) if not sx.is_sym(o.qty) else sx.sabs(o.qty), o.price)
            o.execute()
            ctx.event('fill-' + o.side)
        sync_cancels()
        compare(ctx, api, model, tag)
    ctx.event('history-complete')


def h_step(ctx, holding=True, rest=('buy', 'LIMIT', 'STOP'), op=('X', 0)):
    """H-STEP: one operation from an ARBITRARY valid pre-state (covers histories of any length).
    pre-state: free quote Q0, base B0 (0 if not holding), resting orders given by `rest` ('buy' = a LIMIT buy whose reserve is already
    taken, 'LIMIT'/'STOP' = resting reduce-only sells) with symbolic quantities and prices.  The resting orders are created through real
    submissions while both balances are temporarily huge (nothing is rejected; the exchange's own bookkeeping of resting sells is what
    the real code built), then the balances are overwritten with the symbolic pre-state.
    op: ('X', k) execute resting order k | ('C', k) cancel it | ('N', side, type) submit a new order and, if accepted, execute it"""
    from jesse.exceptions import InsufficientBalance
    fee = ctx.real('fee', 0, 0.01)
    cfg = S.config_dict('spot', fee=fee, balance=1e12)
    api = ApiSession(cfg, symbols=(SYM,), price0=100.0)
    ex = api.exchange
    ex.assets['BTC'] = 1e12
    p = api.positions[SYM]
    p.qty = 1e12
    p.entry_price = 100.0
    p.opened_at = api.store.app.time
    resting = []
    for i, kind in enumerate(rest):
        q = ctx.real('r%d_q' % i, 0.001, 100)
        pr = ctx.real('r%d_p' % i, 1, 1000)
        if kind == 'buy':
            resting.append(api.submit(SYM, 'buy', 'LIMIT', q, pr, False))
        else:
            resting.append(api.submit(SYM, 'sell', kind, q, pr, True))
    Q0 = ctx.real('quote0', 0, 100000)
    B0 = ctx.real('base0', 0.001, 1000) if holding else 0.0
    ex.assets['USDT'] = Q0
    ex.assets['BTC'] = B0
    p.qty = B0
    p.previous_qty = 0
    if not holding:
        p.entry_price = None
        p.opened_at = None
    model = CashModel(Q0, fee)
    model.base = B0
    compare(ctx, api, model, 'pre-state')
    ctx.event('pre-state-holding' if holding else 'pre-state-flat')
    seen = set()

    def sync():
        for o in api.orders:
            if o is not None and o.is_canceled and id(o) not in seen:
                seen.add(id(o))
                model.on_cancel(o.side, abs(o.qty) if not sx.is_sym(o.qty) else sx.sabs(o.qty), o.price)
    if op[0] in ('X', 'C'):
        if op[1] >= len(resting):
            return
        o = resting[op[1]]
        if op[0] == 'C':
            o.cancel()
        else:
            api.set_price(SYM, o.price)
            api.tick()
            model.on_fill(o.side, abs(o.qty) if not sx.is_sym(o.qty) else sx.sabs(o.qty), o.price)
            o.execute()
            ctx.event('fill-' + o.side)
    else:
        side, typ = op[1], op[2]
        q = ctx.real('nq', 0.001, 100)
        pr = ctx.real('np', 1, 1000)
        if typ == 'MARKET':
            api.set_price(SYM, pr)
        must_reject = model.submit_ok(side, typ, q, pr, resting_sells(api))
        try:
            o = api.submit(SYM, side, typ, q, pr, side == 'sell')
            raised = False
        except InsufficientBalance:
            raised = True
        ctx.prove(must_reject if raised else Not(must_reject), 'C04:rejected-iff-overspend-or-oversell', {'after': 'step:' + str(op)})
        if raised:
            ctx.event('rejected-submission')
            return
        model.on_submit(side, q, pr)
        compare(ctx, api, model, 'step-submit:' + str(op))
        api.set_price(SYM, pr)
        api.tick()
        model.on_fill(side, q, pr)
        o.execute()
        ctx.event('fill-' + side)
    sync()
    compare(ctx, api, model, 'step:' + str(op))
    # the representation invariant must be re-established (it is what the pre-state assumed): the exchange's per-kind totals of resting
    # sells equal the quantities of the sell orders that are still active.  Skipped if the exchange no longer keeps such totals.
    if hasattr(ex, 'stop_orders_sum') and hasattr(ex, 'limit_orders_sum'):
        act = resting_sells(api)
        for kind, tab in (('STOP', ex.stop_orders_sum), ('LIMIT', ex.limit_orders_sum)):
            tot = 0.0
            for (t, rq) in act:
                if t == kind:
                    tot = tot + rq
            ctx.prove(ctx.equal(tab.get(SYM, 0), tot), 'C04:step-preserves-resting-sell-bookkeeping', {'kind': kind, 'after': 'step:' + str(op)})
    ctx.event('step-complete')


def h_relaxed_sells(ctx, kind='LIMIT', probe='LIMIT', cancel_first=False):
    """binary64 side of the resting-sell bookkeeping (the statement quantifies over decimal quantities that are not exactly
    representable): quantities and the base balance are relaxed floats (every plain arithmetic operation rounds: exact*(1+d),
    |d| <= 2^-53; jesse's decimal helpers are exact on the decimal values their operands denote).  Two sells of `kind` rest, a
    third sell (`probe`) is submitted: it must be accepted whenever the decimal total does not exceed the base held, and
    rejected when it exceeds it by more than a relative 1e-9."""
    from jesse.exceptions import InsufficientBalance
    cfg = S.config_dict('spot', fee=0.001, balance=1e12)
    api = ApiSession(cfg, symbols=(SYM,), price0=100.0)
    ex = api.exchange
    ex.assets['BTC'] = 1e12
    p = api.positions[SYM]
    p.qty = 1e12
    p.entry_price = 100.0
    p.opened_at = api.store.app.time
    qs = [sx.relax(ctx.real('r%d_q' % i, 0.001, 100)) for i in range(2)]
    rest = [api.submit(SYM, 'sell', kind, q, 150.0 if kind == 'LIMIT' else 50.0, True) for q in qs]
    if cancel_first:
        rest[0].cancel()
        ctx.event('relaxed-cancel')
    B0 = sx.relax(ctx.real('base0', 0.001, 1000))
    ex.assets['BTC'] = B0
    p.qty = B0
    nq = sx.relax(ctx.real('nq', 0.001, 100))
    # decimal (exact) total of what would rest on the sell side of the probe's kind after the submission
    counted = [q for q, o in zip(qs, rest) if o.is_active and (o.type == probe or (probe == 'MARKET' and o.type == 'LIMIT'))]
    total = sx.real_term(nq)
    for q in counted:
        total = total + sx.real_term(q)
    total = sx.SymReal(total) if sx.is_sym(nq) else total
    base = sx.SymReal(sx.real_term(B0)) if sx.is_sym(B0) else B0
    if probe == 'MARKET':
        api.set_price(SYM, 100.0)
    try:
        api.submit(SYM, 'sell', probe, nq, {'LIMIT': 150.0, 'STOP': 50.0, 'MARKET': 100.0}[probe], True)
        raised = False
    except InsufficientBalance:
        raised = True
    ctx.event('relaxed-rejected' if raised else 'relaxed-accepted')
    if raised:
        ctx.prove(total > base, 'C04:sell-within-the-base-held-is-not-rejected(binary64)', {'kind': kind, 'probe': probe})
    else:
        ctx.prove(total <= base * (1 + 1e-9), 'C04:oversell-is-rejected(binary64)', {'kind': kind, 'probe': probe})


# decimal quantities whose binary64 sum is not the double nearest to their decimal sum (used to turn a violation of the relaxed-float
# model, whose solver model carries free rounding errors, into a concrete binary64 witness before it is reported)
_DECIMALS = [0.1, 0.2, 0.3, 0.7, 0.062, 0.937, 1.1, 2.2, 0.01, 0.05, 0.35, 4.35, 0.57, 1.005]


def _binary64_witnesses():
    from decimal import Decimal
    for a in _DECIMALS:
        for b in _DECIMALS:
            for c in _DECIMALS:
                yield {'r0_q': a, 'r1_q': b, 'nq': c, 'base0': float(Decimal(str(a)) + Decimal(str(b)) + Decimal(str(c)))}
                yield {'r0_q': a, 'r1_q': b, 'nq': c, 'base0': float(Decimal(str(b)) + Decimal(str(c)))}


def skeletons(length, types=('LIMIT', 'STOP', 'MARKET'), ros=(1,)):
    out = []

    def rec(prefix, nsub, live):
        if len(prefix) == length:
            out.append(list(prefix))
            return
        for side in ('buy', 'sell'):
            for typ in types:
                for ro in (ros if side == 'sell' else (0,)):
                    rec(prefix + [['S', side, typ, ro]], nsub + 1, live | {nsub})
        for k in sorted(live):
            rec(prefix + [['X', k]], nsub, live - {k})
            rec(prefix + [['C', k]], nsub, live - {k})

    rec([], 0, frozenset())
    # a history that never buys cannot sell anything: keep those that start with a buy
    return [s for s in out if s[0][1] == 'buy']


JOBFN = {'h_history': h_history, 'h_step': h_step, 'h_relaxed_sells': h_relaxed_sells}


def _name(s):
    return '.'.join(''.join(str(x)[0] if isinstance(x, str) else str(x) for x in op) for op in s)


def _jobs(tier):
    jobs = []
    sk = []
    for n in (2, 3):
        sk += skeletons(n)
    sk += skeletons(4, types=('LIMIT', 'STOP'))
    targeted = [
        # cancel-then-resubmit of sells (the statement: also after any number of earlier cancellations)
        [['S', 'buy', 'MARKET', 0], ['X', 0], ['S', 'sell', 'LIMIT', 1], ['C', 1], ['S', 'sell', 'LIMIT', 1]],
        [['S', 'buy', 'MARKET', 0], ['X', 0], ['S', 'sell', 'STOP', 1], ['C', 1], ['S', 'sell', 'STOP', 1]],
        [['S', 'buy', 'MARKET', 0], ['X', 0], ['S', 'sell', 'LIMIT', 1], ['C', 1], ['S', 'sell', 'MARKET', 1]],
        [['S', 'buy', 'LIMIT', 0], ['X', 0], ['S', 'sell', 'LIMIT', 1], ['S', 'sell', 'LIMIT', 1], ['C', 1], ['S', 'sell', 'LIMIT', 1]],
        [['S', 'buy', 'LIMIT', 0], ['X', 0], ['S', 'sell', 'LIMIT', 1], ['S', 'sell', 'STOP', 1], ['X', 1], ['X', 2]],
        [['S', 'buy', 'LIMIT', 0], ['X', 0], ['S', 'sell', 'LIMIT', 0], ['S', 'sell', 'STOP', 0], ['X', 1], ['X', 2]],
        [['S', 'buy', 'LIMIT', 0], ['C', 0], ['S', 'buy', 'LIMIT', 0], ['X', 1], ['S', 'sell', 'MARKET', 1], ['X', 2]],
        [['S', 'buy', 'LIMIT', 0], ['S', 'buy', 'STOP', 0], ['X', 0], ['C', 1], ['S', 'buy', 'MARKET', 0]],
    ]
    B, X = ['S', 'buy', 'MARKET', 0], 'X'
    for first, second in (('LIMIT', 'STOP'), ('STOP', 'LIMIT')):
        for probe in ('LIMIT', 'STOP', 'MARKET'):
            # buy, two sells of different kinds both filled (the second is clamped to what is left), buy again, probe sell
            targeted.append([B, ['X', 0], ['S', 'sell', first, 1], ['S', 'sell', second, 1], ['X', 1], ['X', 2], B, ['X', 3], ['S', 'sell', probe, 1]])
            # the same with the first sell cancelled instead of filled
            targeted.append([B, ['X', 0], ['S', 'sell', first, 1], ['S', 'sell', second, 1], ['C', 1], ['X', 2], B, ['X', 3], ['S', 'sell', probe, 1]])
    sk += targeted
    if tier != 'quick':
        sk += skeletons(5, types=('LIMIT',))
        sk += [s for s in skeletons(4, types=('LIMIT', 'MARKET'), ros=(0, 1))]
    seen = set()
    for s in sk:
        nm = _name(s)
        if nm in seen:
            continue
        seen.add(nm)
        jobs.append(Job('hist_' + nm, h_history, {'skeleton': s}, {'nlsat_fallback': True, 'prove_timeout_ms': 15000}))
    # H-STEP: one operation from an arbitrary pre-state
    rests = [('buy', 'LIMIT', 'STOP')] if tier == 'quick' else [(), ('buy',), ('LIMIT',), ('STOP',), ('buy', 'LIMIT', 'STOP'), ('LIMIT', 'LIMIT', 'STOP'), ('buy', 'STOP', 'STOP')]
    for holding in (True, False):
        for rest in rests:
            if not holding:
                # representation invariant: with no base held nothing can rest on the sell side (a sell needs base when it is submitted and
                # the strategy layer cancels every resting order when the position closes) - flat pre-states carry resting buys only
                rest = tuple(r for r in rest if r == 'buy')
            ops = [('X', k) for k in range(len(rest))] + [('C', k) for k in range(len(rest))]
            ops += [('N', side, typ) for side in ('buy', 'sell') for typ in ('LIMIT', 'STOP', 'MARKET')]
            for op in ops:
                if not holding and rest and any(r != 'buy' for r in rest) and op[0] == 'X' and rest[op[1]] != 'buy':
                    pass  # executing a resting sell while holding nothing: the exchange sells what is held (nothing)
                jobs.append(Job('step_%s_%s_%s' % ('hold' if holding else 'flat', ''.join(r[0] for r in rest) or 'none', ''.join(str(x)[0] for x in op)), h_step,
                                {'holding': holding, 'rest': list(rest), 'op': list(op)}, {'nlsat_fallback': True, 'prove_timeout_ms': 15000}))
    # binary64 side of the resting-sell bookkeeping (relaxed-float model)
    for kind in ('LIMIT', 'STOP'):
        for probe in (kind, 'MARKET'):
            for cf in (False, True):
                jobs.append(Job('relaxed_%s_%s_%s' % (kind, probe, 'c' if cf else 'n'), h_relaxed_sells, {'kind': kind, 'probe': probe, 'cancel_first': cf},
                                {'nlsat_fallback': True, 'prove_timeout_ms': 30000}))
    return jobs


def setup(tier, seed):
    from ..engine import jstubs
    jstubs.install_core()
    S.install_monitors()
    jobs = _jobs(tier)
    return {
        'jobs': jobs,
        'budget_s': 780 if tier == 'quick' else 3300,
        'explanation': 'bounded submit/execute/cancel histories on the real Sandbox driver, Order, Position and SpotExchange (passive strategy '
                       'attached); balance, fee, quantities, prices symbolic; after every operation z3 proves quote and base balances and the '
                       'position size equal to the cash-account model, no negative balance, no short, and InsufficientBalance raised iff a buy '
                       'exceeds the free quote or a sell plus the resting sells of its kind exceeds the base held.',
        'bounds': {'skeletons': len(jobs), 'history_length': '2-4 exhaustive (5 for LIMIT-only in thorough) + targeted cancel/resubmit histories of length 5-6',
                   'values': 'qty in [0.001,100], price in [1,1000], fee in [0,0.01], balance in [100,1e5]'},
        'outside': ['histories longer than 6', 'binary64 rounding outside the resting-sell bookkeeping (there: relaxed-float model, each plain operation exact*(1+d), |d|<=2^-53, '
                    'decimal helpers exact; buys multiply qty*price in floats by design); the Decimal helpers themselves (C17)', 'several symbols'],
        'stubs': list(jstubs.INSTALLED),
        'assumptions': ['floats as reals', 'a sell fill larger than the base held debits what is held (the only reading consistent with "never negative")'],
        'must_reach': ['relaxed-accepted', 'relaxed-rejected', 'relaxed-cancel', 'step-complete', 'pre-state-holding', 'pre-state-flat', 'C04:rejected-iff-overspend-or-oversell', 'rejected-submission', 'fill-buy', 'fill-sell', 'cancel-buy', 'cancel-sell'],
    }


def signature(v):
    sk = v.get('bounds', {}).get('skeleton', [])
    # signature of the known double-release defect: a sell was cancelled earlier in the history
    cancelled_sell = False
    subs = []
    for op in sk:
        if op[0] == 'S':
            subs.append(op)
        elif op[0] == 'C' and op[1] < len(subs) and subs[op[1]][1] == 'sell' and subs[op[1]][2] in ('LIMIT', 'STOP'):
            cancelled_sell = True
    return v['label'] + ('|after-cancelled-resting-sell' if cancelled_sell else '')


def make_witness(v):
    fn = 'h_step' if v['job'].startswith('step_') else ('h_relaxed_sells' if v['job'].startswith('relaxed_') else 'h_history')
    return {'fn': fn, 'kwargs': v['bounds'], 'label': v['label'], 'model': v['model'], 'info': v.get('info')}


def replay(w):
    S.install_monitors()
    ok, msg = replay_harness(JOBFN[w['fn']], w['kwargs'], w['model'], w['label'])
    if ok or w['fn'] != 'h_relaxed_sells':
        return ok, msg
    # the solver's model of a relaxed-float violation fixes the quantities but leaves the rounding errors free; look for decimal
    # quantities whose real binary64 rounding realises it
    for cand in _binary64_witnesses():
        ok2, msg2 = replay_harness(JOBFN[w['fn']], w['kwargs'], cand, w['label'])
        if ok2:
            return True, 'binary64 witness %r: %s' % (cand, msg2)
    return False, msg + ' (and no binary64 witness among %d decimal candidates)' % (2 * len(_DECIMALS) ** 3)
