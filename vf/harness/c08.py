"""C08 - fills inside one minute follow a single continuous price path.

(1) split_candle: every clause of the statement, all ordinal arrangements (ties included).
(2) _sort_execution_orders on one symbolic candle with k <= 3 orders: path order of first hits.
(3) sessions: obligation (b)/(c) of the minute monitor (shared with C02, see c02.py).
"""
import numpy as np

from ..engine import symex as sx
from ..engine.explore import Job
from .common import sym_candle, lex_le, And, Or, Not, Implies

ID = 'C08'


class _O:
    """stand-in for Order in the kernel harness: _sort_execution_orders only reads .price"""

    def __init__(self, name, price):
        self.name = name
        self.price = price

    def __repr__(self):
        return self.name


def h_split(ctx):
    from jesse.services.candle import split_candle
    cnd = sym_candle(ctx, 'k', 1000)
    p = ctx.real('p', 50, 200)
    o, c, h, l = cnd[1], cnd[2], cnd[3], cnd[4]
    ctx.assume((l <= p) & (p <= h))
    res = split_candle(cnd, p)
    if not ctx.prove(res is not None and len(res) == 2, 'split:returns-two-candles'):
        return
    a, b = res
    ctx.event('split-branch')
    for nm, x in (('earlier', a), ('later', b)):
        ctx.prove(And(x[4] <= x[1], x[4] <= x[2], x[1] <= x[3], x[2] <= x[3]), 'split:%s-valid' % nm)
    ctx.prove(a[1] == o, 'split:keeps-open')
    ctx.prove(b[2] == c, 'split:keeps-close')
    ctx.prove(sx.smax(a[3], b[3]) == h, 'split:keeps-high')
    ctx.prove(sx.smin(a[4], b[4]) == l, 'split:keeps-low')
    ctx.prove(Implies(Not(p == o), And(a[2] == p, b[1] == p)), 'split:meets-at-price')
    ctx.prove(And(a[0] == cnd[0], b[0] == cnd[0]), 'split:keeps-timestamp')


def first_hit_key(o, c, h, l, p):
    """position of the first time the path (o,l,h,c if c>=o else o,h,l,c) reaches p, as a lexicographic pair"""
    bull = c >= o
    leg_b = sx.ite(p <= o, 0, 1)
    dist_b = sx.ite(p <= o, o - p, p - l)
    leg_r = sx.ite(p >= o, 0, 1)
    dist_r = sx.ite(p >= o, p - o, h - p)
    return sx.ite(bull, leg_b, leg_r), sx.ite(bull, dist_b, dist_r)


def h_sort(ctx, k=2):
    from jesse.modes.backtest_mode import _sort_execution_orders
    from jesse.services.candle import candle_includes_price
    cnd = sym_candle(ctx, 'k', 1000)
    o, c, h, l = cnd[1], cnd[2], cnd[3], cnd[4]
    orders = []
    for i in range(k):
        p = ctx.real('p%d' % i, 50, 200)
        ctx.assume((l <= p) & (p <= h))  # _get_executing_orders passes only orders inside the candle
        orders.append(_O('o%d' % i, p))
    res = _sort_execution_orders(list(orders), cnd[None, :])
    seen = []
    for x in res:
        if not any(x is y for y in seen):
            seen.append(x)
    ctx.prove(len(seen) == k and all(any(x is y for y in seen) for x in orders), 'sort:is-permutation')
    ctx.event('sort-result')
    for a, b in zip(seen, seen[1:]):
        ka = first_hit_key(o, c, h, l, a.price)
        kb = first_hit_key(o, c, h, l, b.price)
        ctx.prove(lex_le(ka, kb), 'sort:path-order')


def h_session(ctx, n=3, kind='T1', side='long', exch='futures'):
    """sessions: the minute monitor of C02 (path model) - orders resting at the start of the minute and reaction orders placed by hooks"""
    from . import c02
    c02.h_session(ctx, n=n, kind=kind, side=side, exch=exch)


def setup(tier, seed):
    from ..engine import jstubs
    from . import session as S
    jstubs.install_core()
    S.install_monitors()
    jobs = [Job('split_candle', h_split)]
    for k in ((2, 3) if tier == 'quick' else (2, 3, 4)):
        jobs.append(Job('sort_k%d' % k, h_sort, {'k': k}))
    sess = [('T1', 'long', 'futures'), ('T1', 'short', 'futures')] if tier == 'quick' else \
        [('T1', 'long', 'futures'), ('T1', 'short', 'futures'), ('T3', 'long', 'futures'), ('T4', 'short', 'futures'), ('T1', 'long', 'spot'), ('T8', 'long', 'futures')]
    for kind, side, exch in sess:
        jobs.append(Job('sess_3_%s_%s_%s' % (kind, side, exch), h_session, {'n': 3, 'kind': kind, 'side': side, 'exch': exch}, {'max_decisions': 4000}))
    # three resting entries (prices in any order, ties included) against ONE symbolic minute
    for side in ('long',):
        jobs.append(Job('sess_2_T2x_%s_futures' % side, h_session, {'n': 2, 'kind': 'T2x', 'side': side, 'exch': 'futures'}, {'max_decisions': 4000}))
    spec = {
        'jobs': jobs,
        'budget_s': 780 if tier == 'quick' else 3300,
        'explanation': 'split_candle and _sort_execution_orders are executed on a symbolic candle (OHLC reals, l<=o,c<=h) and '
                       'symbolic prices inside its range; every clause of the statement is a solver query per path '
                       '(unsat of the negation = holds for every value of that ordinal arrangement, ties included). '
                       'Session part: the minute monitor of C02 (path model) with reaction orders.',
        'bounds': {'split': 'one candle, one price, all reals in [50,200]', 'sort': 'one candle, k orders, k in %s' % ('2,3' if tier == 'quick' else '2..4')},
        'outside': ['more than %d orders in one minute' % (3 if tier == 'quick' else 4), 'float rounding (values are reals)'],
        'stubs': ['Order stand-in with a .price attribute in the sort kernel harness (the function reads nothing else)'],
        'assumptions': ['floats modelled as reals', 'order prices inside the candle range (as _get_executing_orders guarantees)'],
        'must_reach': ['split:meets-at-price', 'sort:path-order', 'C08:earliest-hit-fills-first', 'reaction-order-fill', 'minute-with-2-fills'],
    }
    return spec


def signature(v):
    return v['label']


def make_witness(v):
    return {'harness': v['job'], 'label': v['label'], 'model': v['model'], 'bounds': v.get('bounds', {}), 'info': v.get('info')}


def replay(w):
    """concrete re-run on the real functions"""
    from jesse.services.candle import split_candle
    from jesse.modes.backtest_mode import _sort_execution_orders
    if w['harness'].startswith('sess_'):
        from ..engine.concrete import replay_harness
        from . import session as S
        S.install_monitors()
        return replay_harness(h_session, w['bounds'], w['model'], w['label'])
    m = w['model']
    cnd = np.array([1000.0, m['k_o'], m['k_c'], m['k_h'], m['k_l'], 10.0])
    o, c, h, l = cnd[1], cnd[2], cnd[3], cnd[4]
    if not (l <= o <= h and l <= c <= h):
        return False, 'rounded model is not a valid candle'
    if w['harness'] == 'split_candle':
        p = m['p']
        if not (l <= p <= h):
            return False, 'rounded price outside range'
        res = split_candle(cnd.copy(), p)
        if res is None or len(res) != 2:
            return True, 'split_candle returned %r' % (res,)
        a, b = res
        bad = []
        for nm, x in (('earlier', a), ('later', b)):
            if not (x[4] <= x[1] <= x[3] and x[4] <= x[2] <= x[3]):
                bad.append(nm + ' invalid')
        if a[1] != o or b[2] != c or max(a[3], b[3]) != h or min(a[4], b[4]) != l:
            bad.append('ohlc not kept')
        if p != o and (a[2] != p or b[1] != p):
            bad.append('halves do not meet at price')
        return bool(bad), 'split_candle(%s, %s) -> %s %s : %s' % (cnd.tolist(), p, a.tolist(), b.tolist(), bad)
    k = int(w['bounds'].get('k', 2))
    orders = [_O('o%d' % i, m['p%d' % i]) for i in range(k)]
    if not all(l <= x.price <= h for x in orders):
        return False, 'rounded price outside range'
    res = _sort_execution_orders(list(orders), cnd[None, :])
    seen = []
    for x in res:
        if x not in seen:
            seen.append(x)

    def key(p):
        if c >= o:
            return (0, o - p) if p <= o else (1, p - l)
        return (0, p - o) if p >= o else (1, h - p)
    bad = len(seen) != k or any(key(a.price) > key(b.price) for a, b in zip(seen, seen[1:]))
    return bad, 'sort(%s) on %s -> %s' % ([x.price for x in orders], cnd.tolist(), [(x.name, x.price) for x in seen])
