"""C18 - the dynamic array behaves like a growing list of rows (H-API on the shape-level numpy shim)."""
import os
import random

import numpy as np

from ..engine import symex as sx
from ..engine import shapeshim as sh
from ..engine.explore import Job
from ..engine.concrete import ConcreteCtx, ReplayAssumeFailed
from .common import And, Or, Not, Implies

ID = 'C18'
LIM = 12


class ListModel:
    """plain list of row ids: (length, row function)"""

    def __init__(self):
        self.n = 0
        self.rows = lambda k: 0

    def append(self, v):
        old, n = self.rows, self.n
        self.rows = lambda k, old=old, n=n, v=v: sx.ite(k == n, v, old(k))
        self.n = n + 1

    def extend(self, m, base):
        old, n = self.rows, self.n
        self.rows = lambda k, old=old, n=n, base=base: sx.ite(k >= n, base + (k - n), old(k))
        self.n = n + m

    def delete(self, idx):
        old = self.rows
        self.rows = lambda k, old=old, idx=idx: sx.ite(k < idx, old(k), old(k + 1))
        self.n = self.n - 1

    def set(self, idx, v):
        old = self.rows
        self.rows = lambda k, old=old, idx=idx, v=v: sx.ite(k == idx, v, old(k))

    def set_slice(self, start, stop, base):
        old = self.rows
        self.rows = lambda k, old=old: sx.ite(sh._and(k >= start, k < stop), base + (k - start), old(k))

    def norm_index(self, i):
        """list index normalisation: (valid, index)"""
        n = self.n
        valid = sh._and(i >= -n, i < n)
        return valid, sx.ite(i < 0, i + n, i)

    def norm_slice(self, start, stop):
        n = self.n

        def clamp(v, default):
            if v is None:
                return default
            v2 = sx.ite(v < 0, v + n, v)
            v2 = sx.ite(v2 < 0, 0, v2)
            return sx.ite(v2 > n, n, v2)
        s = clamp(start, 0)
        e = clamp(stop, n)
        e = sx.ite(e < s, s, e)
        return s, e


def _lenof(d):
    return d.index + 1


def compare_state(ctx, d, model, tag, counter):
    ctx.prove(_lenof(d) == model.n, 'C18:length', {'after': tag})
    counter[0] += 1
    j = ctx.int('probe%d' % counter[0], 0, 200)
    if getattr(ctx, 'concrete', False):
        # concrete replay: compare every row
        ok = True
        for k in range(int(model.n)):
            ok = ok and (real_row(d, k) == model.rows(k))
        ctx.prove(ok, 'C18:content', {'after': tag})
        return
    ctx.prove(Implies(j < model.n, d.array.rows(j) == model.rows(j)), 'C18:content', {'after': tag})


def real_row(d, k):
    a = d.array
    if isinstance(a, sh.ShArr):
        return a.rows(k)
    return int(a[k][0])


def mk_item(v, concrete):
    if concrete:
        return np.array([float(v), float(v)])
    return v


def mk_items(m, base, concrete):
    if concrete:
        return np.array([[float(base + i), float(base + i)] for i in range(int(m))]).reshape(int(m), 2)
    return sh.Items(m, base)


def rid(x, concrete):
    """row id of a returned row"""
    if concrete:
        return int(x[0])
    return x


def h_history(ctx, ops=(), bucket=4, drop_at=None):
    """ops: 'A' append, 'M' append_multiple, 'D' delete, 'G' get[i], 'S' get[a:b], 'SN' get[a:], 'NS' get[:b], 'W' set[i], 'V' set[a:b]=rows,
    'F' flush, 'L' get_last_item, 'P' get_past_item"""
    concrete = getattr(ctx, 'concrete', False)
    DNA = get_class(concrete)
    d = DNA((bucket, 2), drop_at=drop_at)
    model = ListModel()
    counter = [0]
    next_id = [1000]

    def fresh(n=1):
        v = next_id[0]
        next_id[0] += 100
        return v

    for step, op in enumerate(ops):
        tag = '%d:%s' % (step, op)
        try:
            if op == 'A':
                v = fresh()
                model.append(v)
                d.append(mk_item(v, concrete))
            elif op == 'M':
                m = ctx.int('m%d' % step, 0, 9)
                base = fresh()
                model.extend(m, base)
                d.append_multiple(mk_items(m, base, concrete))
            elif op == 'D':
                i = ctx.int('i%d' % step, 0, LIM)
                if not bool(i < model.n):
                    ctx.event('invalid-delete-skipped')
                    return
                model.delete(i)
                d.delete(i, axis=0)
            elif op == 'F':
                model.n, model.rows = 0, (lambda k: 0)
                d.flush()
            elif op in ('G', 'L', 'P'):
                if op == 'G':
                    i = ctx.int('i%d' % step, -LIM, LIM)
                elif op == 'L':
                    i = -1
                else:
                    pk = ctx.int('i%d' % step, 0, LIM)
                    i = -1 - pk
                valid, idx = model.norm_index(i)
                valid = bool(valid)
                try:
                    got = d[i] if op == 'G' else (d.get_last_item() if op == 'L' else d.get_past_item(pk))
                    raised = False
                except IndexError:
                    raised = True
                if valid:
                    ctx.event('valid-read')
                    if ctx.prove(not raised, 'C18:valid-read-does-not-raise', {'op': tag}):
                        ctx.prove(rid(got, concrete) == model.rows(idx), 'C18:read-returns-the-list-element', {'op': tag})
                else:
                    ctx.event('invalid-read')
                    ctx.prove(raised, 'C18:invalid-index-raises', {'op': tag})
            elif op in ('S', 'SN', 'NS'):
                a = ctx.int('a%d' % step, -LIM, LIM) if op in ('S', 'SN') else None
                b = ctx.int('b%d' % step, -LIM, LIM) if op in ('S', 'NS') else None
                s, e = model.norm_slice(a, b)
                got = d[a:b]
                glen = len(got) if concrete else got.n
                ctx.event('slice-read')
                if ctx.prove(glen == e - s, 'C18:slice-length', {'op': tag}):
                    if concrete:
                        ctx.prove(all(int(got[k][0]) == model.rows(s + k) for k in range(int(glen))), 'C18:slice-content', {'op': tag})
                    else:
                        counter[0] += 1
                        j = ctx.int('probe%d' % counter[0], 0, 200)
                        ctx.prove(Implies(j < e - s, got.rows(j) == model.rows(s + j)), 'C18:slice-content', {'op': tag})
            elif op == 'W':
                i = ctx.int('i%d' % step, -LIM, LIM)
                valid, idx = model.norm_index(i)
                if not bool(valid):
                    ctx.event('invalid-write-skipped')
                    return
                v = fresh()
                model.set(idx, v)
                d[i] = mk_item(v, concrete)
            elif op == 'V':
                a = ctx.int('a%d' % step, -LIM, LIM)
                b = ctx.int('b%d' % step, -LIM, LIM)
                s, e = model.norm_slice(a, b)
                if not bool(e > s):
                    ctx.event('empty-slice-assignment-skipped')
                    return
                base = fresh()
                model.set_slice(s, e, base)
                d[a:b] = mk_items(e - s, base, concrete)
            else:
                raise ValueError(op)
        except (IndexError, ValueError) as ex:
            # a mutation that is valid on the list raised
            ctx.prove(False, 'C18:valid-operation-raises', {'op': tag, 'error': type(ex).__name__})
            return
        if drop_at is None:
            compare_state(ctx, d, model, tag, counter)
        else:
            # drop-oldest: the model is the list truncated to the array's current length from the right
            ln = _lenof(d)
            ctx.prove(And(ln <= model.n, ln >= 0), 'C18:length', {'after': tag, 'drop_at': drop_at})
            counter[0] += 1
            j = ctx.int('probe%d' % counter[0], 0, 200)
            if concrete:
                ok = all(real_row(d, k) == model.rows(model.n - ln + k) for k in range(int(ln)))
                ctx.prove(ok, 'C18:content', {'after': tag, 'drop_at': drop_at})
            else:
                ctx.prove(Implies(j < ln, d.array.rows(j) == model.rows(model.n - ln + j)), 'C18:content', {'after': tag, 'drop_at': drop_at})
            # keep the model in step with the truncation
            off = model.n - ln
            old = model.rows
            model.rows = lambda k, old=old, off=off: old(k + off)
            model.n = ln
    ctx.event('history-complete')


_REAL = {}


def get_class(concrete):
    if not concrete:
        import jesse.libs.dynamic_numpy_array as m
        return m.DynamicNumpyArray
    if 'cls' not in _REAL:
        import importlib
        import jesse.libs.dynamic_numpy_array as m
        importlib.reload(m) if getattr(m, 'np', None).__class__.__name__ == 'ShapeNP' else None
        _REAL['cls'] = m.DynamicNumpyArray
    return _REAL['cls']


def install():
    from ..engine import jstubs
    shim = sh.ShapeNP()
    jstubs.setattr_mod('jesse.libs.dynamic_numpy_array', 'np', shim, 'shape-level numpy shim (length + row function)')
    jstubs.setattr_mod('jesse.libs.dynamic_numpy_array', 'np_shift', sh.np_shift, 'shape-level np_shift')
    jstubs.setattr_mod('jesse.libs.dynamic_numpy_array', 'len', sh.slen, 'len() of shape-level arrays / symbolic batches')
    jstubs.setattr_mod('jesse.libs.dynamic_numpy_array', 'int', jstubs.pint, 'int() passes symbolic ints')


KINDS_Q = ['A', 'M', 'D', 'G', 'S']
KINDS_ALL = ['A', 'M', 'D', 'G', 'S', 'SN', 'NS', 'W', 'V', 'F', 'L', 'P']


def skeletons(kinds, depth):
    out = []

    def rec(p):
        if len(p) == depth:
            out.append(list(p))
            return
        for k in kinds:
            rec(p + [k])
    rec([])
    return out


def _jobs(tier):
    jobs = []
    seen = set()

    def add(ops, bucket, drop_at=None):
        filled = False
        for o in ops:  # a delete / slice assignment needs at least one row
            if o in ('A', 'M'):
                filled = True
            elif o == 'F':
                filled = False
            elif o in ('D', 'V') and not filled:
                return
        key = (tuple(ops), bucket, drop_at)
        if key in seen:
            return
        seen.add(key)
        jobs.append(Job('b%d%s_%s' % (bucket, '' if drop_at is None else 'd%d' % drop_at, ''.join(ops)), h_history,
                        {'ops': list(ops), 'bucket': bucket, 'drop_at': drop_at}, {'max_decisions': 3000}))
    if tier == 'quick':
        for b in (2, 4):
            for d in (1, 2):
                for s in skeletons(KINDS_ALL, d):
                    add(s, b)
            for s in skeletons(KINDS_Q, 3):
                add(s, b)
        fam = [['M', 'D', 'D', 'A', 'A'], ['M', 'D', 'A', 'G'], ['M', 'M', 'S'], ['A', 'A', 'S'], ['M', 'D', 'D', 'A', 'A', 'A', 'G'],
               ['A'] * 7 + ['D', 'D', 'A', 'A', 'G'], ['A'] * 5 + ['D', 'A', 'A', 'A', 'G'], ['A'] * 4 + ['D', 'D', 'D', 'A', 'A', 'A']]
        for f in fam:
            add(f, 4)
        for s in skeletons(['A', 'M', 'G'], 3):  # drop-oldest option
            add(s, 4, 4)
    else:
        for b in (1, 2, 3, 4, 10):
            for d in (1, 2):
                for s in skeletons(KINDS_ALL, d):
                    add(s, b)
            for s in skeletons(KINDS_Q + ['W'], 3):
                add(s, b)
        for b in (2, 4):
            for s in skeletons(['A', 'M', 'D', 'G'], 4):
                add(s, b)
        for a in range(0, 4):
            for c in range(0, 4):
                add(['M'] + ['D'] * a + ['A'] * c + ['G'], 4)
                add(['M'] + ['D'] * a + ['A'] * c + ['S'], 4)
        for dr in (4, 6):
            for s in skeletons(['A', 'M', 'G'], 3):
                add(s, 4, dr)
    return jobs


def shim_validation(seed, n=300):
    """the shim against real numpy: random concrete histories on the real class (real numpy) and on the class with the shim"""
    import importlib
    import sys
    rnd = random.Random(seed)
    src = open(os.environ.get('VF_REPO', '/repo') + '/jesse/libs/dynamic_numpy_array/__init__.py').read()
    ns = {'__name__': 'real_dna'}
    exec(compile(src, 'real_dna', 'exec'), ns)
    Real = ns['DynamicNumpyArray']
    import jesse.libs.dynamic_numpy_array as m
    Shim = m.DynamicNumpyArray
    agree = 0
    mism = []
    for t in range(n):
        bucket = rnd.choice([2, 3, 4])
        r, s = Real((bucket, 2)), Shim((bucket, 2))
        nid = 1
        for step in range(rnd.randint(1, 6)):
            op = rnd.choice(['A', 'M', 'D', 'G', 'S', 'W'])
            res = []
            for obj, conc in ((r, True), (s, False)):
                try:
                    if op == 'A':
                        obj.append(np.array([float(nid)] * 2) if conc else nid)
                        out = None
                    elif op == 'M':
                        k = (nid * 7) % 6
                        obj.append_multiple(np.array([[float(nid + i)] * 2 for i in range(k)]).reshape(k, 2) if conc else sh.Items(k, nid))
                        out = None
                    elif op == 'D':
                        ln = obj.index + 1
                        if ln == 0:
                            out = None
                        else:
                            obj.delete(nid % ln, axis=0)
                            out = None
                    elif op == 'G':
                        i = (nid % 9) - 4
                        x = obj[i]
                        out = int(x[0]) if conc else int(x)
                    elif op == 'S':
                        a, b = (nid % 9) - 4, (nid * 3 % 11) - 5
                        x = obj[a:b]
                        out = [int(v[0]) for v in x] if conc else [int(x.rows(k)) for k in range(int(x.n))]
                    else:
                        ln = obj.index + 1
                        if ln == 0:
                            out = None
                        else:
                            obj[nid % ln] = np.array([float(nid)] * 2) if conc else nid
                            out = None
                except (IndexError, ValueError) as e:
                    out = type(e).__name__
                ln = obj.index + 1
                cap = len(obj.array) if conc else int(obj.array.n)
                rows = [int(obj.array[k][0]) for k in range(ln)] if conc else [int(obj.array.rows(k)) for k in range(ln)]
                res.append((out, ln, cap, rows))
            nid += 3
            if res[0] != res[1]:
                mism.append({'trial': t, 'op': op, 'real': repr(res[0])[:200], 'shim': repr(res[1])[:200]})
                break
        else:
            agree += 1
    return {'histories': n, 'agree': agree, 'mismatches': mism[:3]}


def setup(tier, seed):
    from ..engine import jstubs
    import jesse.libs.dynamic_numpy_array  # noqa
    install()
    jobs = _jobs(tier)
    val = shim_validation(seed)
    errs = []
    if val['mismatches']:
        errs.append('shape shim disagrees with real numpy: %r' % (val['mismatches'][:1],))
    return {
        'jobs': jobs,
        'harness_errors': errs,
        'budget_s': 780 if tier == 'quick' else 3300,
        'explanation': 'the real DynamicNumpyArray runs with its module-global np/len/int/np_shift replaced by a shape-level shim (length + row '
                       'function with numpy\'s index/slice/out-of-range rules), so its own index arithmetic runs on symbolic integers: every index, '
                       'slice bound and append_multiple length is symbolic; a list model (length + row function) is updated by list semantics; '
                       'after every operation z3 proves equal length, equal row at a fresh symbolic probe index, equal read results, and that '
                       'operations valid on the list do not raise.',
        'bounds': {'bucket_sizes': sorted({j.kwargs['bucket'] for j in jobs}), 'skeletons': len(jobs), 'depth': 'all skeletons of depth <= 2 over 12 '
                   'operation kinds and depth 3 over {append, append_multiple, delete, get, get-slice}; targeted families up to 7',
                   'indices': '[-12,12], append_multiple length 0..9'},
        'outside': ['bucket sizes outside the enumerated set', 'longer histories', 'negative delete indices', 'slices with a step'],
        'stubs': list(jstubs.INSTALLED),
        'shim_validation': val,
        'assumptions': ['the shape shim reproduces numpy (validated each run on %d random concrete histories against real numpy; replays use real numpy)' % val['histories']],
        'must_reach': ['valid-read', 'invalid-read', 'slice-read', 'C18:content', 'history-complete'],
    }


def signature(v):
    info = v.get('info') or {}
    ops = v.get('bounds', {}).get('ops', [])
    sig = v['label']
    if 'D' in ops:
        sig += '|history-with-delete'
    if any(o in ops for o in ('S', 'SN', 'NS', 'V')) and v['label'].startswith('C18:slice'):
        sig += '|slice'
    return sig


def make_witness(v):
    return {'fn': 'h_history', 'kwargs': v['bounds'], 'label': v['label'], 'model': v['model'], 'info': v.get('info')}


def replay(w):
    ctx = ConcreteCtx(w['model'])
    # probes are not part of the input: give them any value
    for k in range(1, 40):
        ctx.model.setdefault('probe%d' % k, 0)
    try:
        h_history(ctx, **w['kwargs'])
    except ReplayAssumeFailed as e:
        return False, 'replay: %s' % e
    labels = sorted({f['label'] for f in ctx.failed})
    return bool(ctx.failed), 'real DynamicNumpyArray with real numpy: failing %s %r' % (labels, [f['info'] for f in ctx.failed][:2])
