"""C19 - optimizer DNA decodes into in-range, typed, monotone hyperparameters; injection precedence."""
import builtins
import inspect

import numpy as np

from ..engine import symex as sx
from ..engine.explore import Job
from ..engine.concrete import replay_harness
from . import session as S
from .common import And, Or, Not, Implies

ID = 'C19'


class Gene:
    """a symbolic letter of the DNA: ord(gene) is a symbolic integer"""

    def __init__(self, o):
        self.o = o


def _ord(x):
    if isinstance(x, Gene):
        return x.o
    return builtins.ord(x)


def _types():
    import jesse.helpers as jh
    return getattr(jh, 'int', int), getattr(jh, 'float', float)


def _gene(ctx, name):
    if getattr(ctx, 'concrete', False):
        return chr(ctx.int(name, 40, 119))
    return Gene(ctx.int(name, 40, 119))


def h_float(ctx, ngenes=2):
    """float parameters: symbolic gene ordinals 40..119, symbolic real bounds min < max"""
    import jesse.helpers as jh
    tint, tfloat = _types()
    decl, genes, genes2 = [], [], []
    for j in range(ngenes):
        lo = ctx.real('min%d' % j, -1000, 1000)
        hi = ctx.real('max%d' % j, -1000, 1000)
        ctx.constrain(lo < hi)
        decl.append({'name': 'p%d' % j, 'type': tfloat, 'min': lo, 'max': hi, 'default': lo})
        genes.append(_gene(ctx, 'g%d' % j))
        genes2.append(_gene(ctx, 'k%d' % j))
    hp = jh.dna_to_hp(decl, genes)
    ctx.prove(sorted(hp.keys()) == sorted(d['name'] for d in decl), 'C19:one-value-per-declared-parameter')
    for j in range(ngenes):
        v = hp['p%d' % j]
        ctx.prove(And(decl[j]['min'] <= v, v <= decl[j]['max']), 'C19:value-inside-declared-range', {'type': 'float', 'pos': j})
        ctx.prove(isinstance(v, tfloat) or isinstance(v, float), 'C19:value-has-declared-type', {'type': 'float'})
    # depends only on the gene at that position; monotone in the gene
    for j in range(ngenes):
        other = list(genes2)
        other[j] = genes[j]
        hp2 = jh.dna_to_hp(decl, other)
        ctx.prove(hp2['p%d' % j] == hp['p%d' % j], 'C19:value-depends-only-on-its-own-gene', {'pos': j})
        mixed = list(genes)
        mixed[j] = genes2[j]
        hp3 = jh.dna_to_hp(decl, mixed)
        o1 = _ord(genes[j])
        o2 = _ord(genes2[j])
        ctx.prove(Implies(o1 <= o2, hp['p%d' % j] <= hp3['p%d' % j]), 'C19:monotone-in-the-gene', {'type': 'float', 'pos': j})
    # endpoints
    first = jh.dna_to_hp(decl, ['('] * ngenes)
    last = jh.dna_to_hp(decl, ['w'] * ngenes)
    for j in range(ngenes):
        ctx.prove(And(first['p%d' % j] == decl[j]['min'], last['p%d' % j] == decl[j]['max']), 'C19:first-letter-min-last-letter-max', {'type': 'float'})
    ctx.event('float-decoded')


def h_int(ctx, lo_letter=40, hi_letter=119):
    """int parameters: every letter of the alphabet (enumerated), symbolic integer bounds min < max"""
    import jesse.helpers as jh
    tint, tfloat = _types()
    lo = ctx.int('min', -500, 500)
    hi = ctx.int('max', -500, 500)
    ctx.constrain(lo < hi)
    decl = [{'name': 'n', 'type': tint, 'min': lo, 'max': hi, 'default': lo}]
    prev = None
    for o in range(lo_letter, hi_letter + 1):
        v = jh.dna_to_hp(decl, [chr(o)])['n']
        ctx.prove(isinstance(v, (int, sx.SymInt)) and not isinstance(v, bool), 'C19:value-has-declared-type', {'type': 'int', 'letter': o})
        ctx.prove(And(lo <= v, v <= hi), 'C19:value-inside-declared-range', {'type': 'int', 'letter': o})
        if prev is not None:
            ctx.prove(prev <= v, 'C19:monotone-in-the-gene', {'type': 'int', 'letter': o})
        if o == 40:
            ctx.prove(v == lo, 'C19:first-letter-min-last-letter-max', {'type': 'int', 'letter': o})
        if o == 119:
            ctx.prove(v == hi, 'C19:first-letter-min-last-letter-max', {'type': 'int', 'letter': o})
        prev = v
    ctx.event('int-decoded')


def h_twins(ctx, lo=1, hi=10):
    """two parameters with numerically equal bounds but different declared types, decoded from the same gene, in both declaration
    orders: each value has its own declared type and does not depend on what else is declared (or was decoded before)"""
    import jesse.helpers as jh
    tint, tfloat = _types()
    a = {'name': 'a', 'type': tint, 'min': int(lo), 'max': int(hi), 'default': int(lo)}
    b = {'name': 'b', 'type': tfloat, 'min': float(lo), 'max': float(hi), 'default': float(lo)}
    g = _gene(ctx, 'g')
    o = _ord(g)
    res = []
    for decl in ([a, b], [b, a], [b], [a]):
        res.append(jh.dna_to_hp(decl, [g] * len(decl)))
    exact = (o - 40) * (hi - lo) / 79 + lo  # the statement's linear map of the alphabet onto [min, max]
    for k, hp in enumerate(res):
        if 'a' in hp:
            v = hp['a']
            ctx.prove(isinstance(v, (int, sx.SymInt)) and not isinstance(v, bool), 'C19:value-has-declared-type', {'type': 'int', 'twins': k})
            ctx.prove(And(v - exact <= 0.5, exact - v <= 0.5), 'C19:int-value-is-the-rounded-linear-map', {'twins': k})
        if 'b' in hp:
            v = hp['b']
            ctx.prove(isinstance(v, (float, np.floating, sx.SymReal)), 'C19:value-has-declared-type', {'type': 'float', 'twins': k})
            ctx.prove(And(v - exact <= 1e-9, exact - v <= 1e-9), 'C19:float-value-is-the-linear-map', {'twins': k})
    ctx.event('twins-decoded')


def h_charset(ctx):
    from jesse.modes.optimize_mode.Optimize import Optimizer
    cs = inspect.signature(Optimizer.__init__).parameters['charset'].default
    ctx.prove(cs == ''.join(chr(o) for o in range(40, 120)), 'C19:alphabet-is-ordinals-40-to-119', {'charset': cs})
    ctx.event('charset-checked')


def h_precedence(ctx, use_defaults=True, use_dna=True, use_explicit=True):
    """a backtest exposes exactly the injected values: explicit > dna() > defaults"""
    import jesse.helpers as jh
    tint, tfloat = _types()
    Strategy = S.base_strategy()
    d0 = ctx.real('default', -100, 100)
    lo = ctx.real('min', -100, 100)
    hi = ctx.real('max', -100, 100)
    ctx.constrain(And(lo < hi, lo <= d0, d0 <= hi))
    ev = ctx.real('explicit', -100, 100)
    dna_str = 'P'
    seen = []

    class H(Strategy):
        def hyperparameters(self):
            return [{'name': 'x', 'type': tfloat, 'min': lo, 'max': hi, 'default': d0}] if use_defaults else []

        def dna(self):
            return dna_str if use_dna else ''

        def should_long(self):
            return False

        def go_long(self):
            pass

        def should_cancel_entry(self):
            return True

        def before(self):
            seen.append(self.hp)

    rows = [S.flat_row(S.T0 + i * S.MIN, 100.0) for i in range(3)]
    hp_arg = {'x': ev} if use_explicit else None
    S.run_session(S.make_candles(rows), H, S.config_dict('futures', fee=0.0), hyperparameters=hp_arg)
    ctx.prove(len(seen) == 3, 'C19:strategy-executed')
    if use_explicit:
        exp = ev
        src = 'explicit'
    elif use_dna and use_defaults:
        exp = ((builtins.ord(dna_str) - 40) * (hi - lo)) / 79 + lo
        src = 'dna'
    elif use_defaults:
        exp = d0
        src = 'default'
    else:
        exp = None
        src = 'none'
    for hp in seen:
        if exp is None:
            ctx.prove(hp is None or hp == {}, 'C19:strategy-sees-injected-hyperparameters', {'source': src})
        else:
            ctx.prove(hp is not None and list(hp.keys()) == ['x'] and bool(ctx.equal(hp['x'], exp)) if not sx.is_sym(ctx.equal(hp['x'], exp)) else ctx.equal(hp['x'], exp),
                      'C19:strategy-sees-injected-hyperparameters', {'source': src})
    ctx.event('precedence-' + src)


def h_partial(ctx, use_dna=True, given='x'):
    """two declared hyperparameters, only one given explicitly: the explicit value is the one the strategy sees for that name
    (explicit > dna() > defaults); a name that was not given may be absent, or carry its dna() value or its default - never
    anything else"""
    tint, tfloat = _types()
    Strategy = S.base_strategy()
    los, his, dfs = {}, {}, {}
    for n in ('x', 'y'):
        dfs[n] = ctx.real('default_' + n, -100, 100)
        los[n] = ctx.real('min_' + n, -100, 100)
        his[n] = ctx.real('max_' + n, -100, 100)
        ctx.constrain(And(los[n] < his[n], los[n] <= dfs[n], dfs[n] <= his[n]))
    ev = ctx.real('explicit', -100, 100)
    dna_str = 'PC'
    seen = []

    class H(Strategy):
        def hyperparameters(self):
            return [{'name': n, 'type': tfloat, 'min': los[n], 'max': his[n], 'default': dfs[n]} for n in ('x', 'y')]

        def dna(self):
            return dna_str if use_dna else ''

        def should_long(self):
            return False

        def go_long(self):
            pass

        def should_cancel_entry(self):
            return True

        def before(self):
            seen.append(dict(self.hp) if self.hp is not None else None)

    rows = [S.flat_row(S.T0 + i * S.MIN, 100.0) for i in range(3)]
    S.run_session(S.make_candles(rows), H, S.config_dict('futures', fee=0.0), hyperparameters={given: ev})
    ctx.prove(len(seen) == 3, 'C19:strategy-executed')
    other = 'y' if given == 'x' else 'x'
    gene = dna_str[('x', 'y').index(other)]
    dna_val = ((builtins.ord(gene) - 40) * (his[other] - los[other])) / 79 + los[other]
    for hp in seen:
        ok_keys = hp is not None and given in hp and set(hp.keys()) <= {'x', 'y'}
        ctx.prove(ok_keys, 'C19:strategy-sees-injected-hyperparameters', {'source': 'explicit-partial', 'given': given})
        if not ok_keys:
            continue
        ctx.prove(ctx.equal(hp[given], ev), 'C19:explicit-value-wins-over-dna-and-default', {'given': given, 'dna': use_dna})
        if other in hp:
            allowed = ctx.equal(hp[other], dfs[other])
            if use_dna:
                allowed = Or(allowed, ctx.equal(hp[other], dna_val))
            ctx.prove(allowed, 'C19:name-not-given-carries-dna-or-default', {'given': given, 'dna': use_dna})
    ctx.event('precedence-explicit-partial')


JOBFN = {'h_partial': h_partial, 'h_twins': h_twins, 'h_float': h_float, 'h_int': h_int, 'h_charset': h_charset, 'h_precedence': h_precedence}


def _jobs(tier):
    jobs = [Job('float_2', h_float, {'ngenes': 2}), Job('int_all_letters', h_int, {}), Job('charset', h_charset, {}),
            Job('twins_1_10', h_twins, {'lo': 1, 'hi': 10}), Job('twins_m20_m2', h_twins, {'lo': -20, 'hi': -2})]
    if tier != 'quick':
        jobs.append(Job('float_3', h_float, {'ngenes': 3}))
        jobs.append(Job('float_1', h_float, {'ngenes': 1}))
    for d in (True, False):
        for g in (True, False):
            for e in (True, False):
                if g and not d:
                    continue  # dna() without declared hyperparameters decodes nothing
                jobs.append(Job('prec_%d%d%d' % (d, g, e), h_precedence, {'use_defaults': d, 'use_dna': g, 'use_explicit': e}))
    for g in (True, False):
        for n in ('x', 'y'):
            jobs.append(Job('partial_%d%s' % (g, n), h_partial, {'use_dna': g, 'given': n}))
    for j in jobs:
        j.opts.update({'nlsat_fallback': True, 'prove_timeout_ms': 30000})
    return jobs


def install():
    from ..engine import jstubs
    jstubs.install_core()
    jstubs.setattr_mod('jesse.helpers', 'int', jstubs.pint, 'int() passes proxies; `h["type"] is int` is evaluated against this name')
    jstubs.setattr_mod('jesse.helpers', 'ord', _ord, 'ord() of a symbolic gene is its symbolic ordinal')


def setup(tier, seed):
    from ..engine import jstubs
    install()
    S.install_monitors()
    jobs = _jobs(tier)
    return {
        'jobs': jobs,
        'budget_s': 600,
        'explanation': 'helpers.dna_to_hp/convert_number executed on DNAs of symbolic genes (ordinal 40..119) with symbolic real bounds (float type) '
                       'and on every letter with symbolic integer bounds (int type, round-half-even over reals): range, type, own-gene dependence, '
                       'monotonicity, endpoints proven by z3; the optimizer default charset compared with ordinals 40..119; injection precedence '
                       '(explicit > dna() > defaults) through the real _prepare_routes/_init_objects inside research.backtest with symbolic values.',
        'bounds': {'genes': '1-3 (float), all 80 letters (int)', 'bounds': 'float in [-1000,1000], int in [-500,500], min < max'},
        'outside': ['int parameters with fractional bounds', 'binary64 rounding of (79*r)/79 + min (may exceed max by an ulp; reals here)'],
        'stubs': list(jstubs.INSTALLED),
        'assumptions': ['floats as reals', 'declared types are given through the module\'s own int/float names (selects the same branch)'],
        'must_reach': ['float-decoded', 'int-decoded', 'charset-checked', 'precedence-explicit', 'precedence-dna', 'precedence-default', 'precedence-none', 'precedence-explicit-partial'],
    }


def signature(v):
    return v['label']


def make_witness(v):
    fn = {'float': 'h_float', 'int': 'h_int', 'charset': 'h_charset', 'prec': 'h_precedence', 'twins': 'h_twins', 'partial': 'h_partial'}[v['job'].split('_')[0]]
    return {'fn': fn, 'kwargs': v['bounds'], 'label': v['label'], 'model': v['model'], 'info': v.get('info')}


def replay(w):
    return replay_harness(JOBFN[w['fn']], w['kwargs'], w['model'], w['label'])
