"""C14 - sequential and single-value indicator results agree (H-IND)."""
import numpy as np

from ..engine import symex as sx
from ..engine.explore import Job
from ..engine.concrete import replay_harness
from . import session as S
from . import indh
from .common import And, Or, Not

ID = 'C14'
WARM = 6  # config env.data.warmup_candles_num used by helpers.slice_candles (a legitimate config key; default 240)


def set_window():
    from jesse.config import config
    import jesse.helpers as jh
    config['env']['data']['warmup_candles_num'] = WARM
    jh.CACHED_CONFIG.clear()


def last(v):
    return v[-1] if hasattr(v, '__len__') else v


def h_agree(ctx, name='sma', n=6, variant=0, source_type=None, edge=False):
    set_window()
    kw, sig = indh.lowered_params(name, variant)
    if edge:
        # boundary: the shortest period equals the number of candles the single-value branch works on (exactly enough data)
        ints = [k for k, v in kw.items() if isinstance(v, int) and not isinstance(v, bool)]
        if not ints:
            ctx.event('no-period-parameter')
            return
        lo = min(kw[k] for k in ints)
        for k in ints:
            if kw[k] == lo:
                kw[k] = min(n, WARM)
    if 'sequential' not in sig.parameters:
        ctx.event('no-sequential-parameter')
        return
    rows, m = indh.sym_matrix(ctx, n)
    two = any(p in sig.parameters for p in ('benchmark_candles', 'candles_compare'))
    m2 = None
    if two:
        _, m2 = indh.sym_matrix(ctx, n, name='b')
    try:
        seq = indh.fields(indh.call(name, m, kw, sig, True, m2, source_type))
        single = indh.fields(indh.call(name, m, kw, sig, False, m2, source_type))
    except ZeroDivisionError:
        ctx.event('input-outside-domain-division-by-zero')
        return
    exempt = name == 'minmax'
    for fld, arr in seq.items():
        ctx.prove(hasattr(arr, '__len__') and len(arr) == n, 'C14:sequential-result-has-one-entry-per-candle', {'indicator': name, 'field': fld, 'n': n,
                                                                                                             'len': len(arr) if hasattr(arr, '__len__') else None})
    if exempt:
        ctx.event('minmax-exempt')
        return
    if n <= WARM:
        # the single value is computed on the same input
        for fld, arr in seq.items():
            if not hasattr(arr, '__len__') or len(arr) == 0:
                continue
            sv = single.get(fld)
            ok, cond = indh.same_value(ctx, arr[-1], sv)
            if not ok:
                ctx.prove(False, 'C14:last-sequential-entry-equals-single-value', {'indicator': name, 'field': fld, 'n': n, 'kind': 'nan-pattern'})
            elif cond is not True:
                ctx.prove(cond, 'C14:last-sequential-entry-equals-single-value', {'indicator': name, 'field': fld, 'n': n},
                          witness=indh.clear_difference(arr[-1], sv))
            ctx.event('last-entry-compared')
    else:
        # long input: the single value equals the sequential result on the trailing warm-up window
        try:
            tail = indh.fields(indh.call(name, m[-WARM:], kw, sig, True, None if m2 is None else m2[-WARM:], source_type))
        except ZeroDivisionError:
            ctx.event('input-outside-domain-division-by-zero')
            return
        for fld, arr in tail.items():
            if not hasattr(arr, '__len__') or len(arr) == 0:
                continue
            sv = single.get(fld)
            ok, cond = indh.same_value(ctx, arr[-1], sv)
            if not ok:
                ctx.prove(False, 'C14:single-value-on-long-input-equals-sequential-on-warmup-window', {'indicator': name, 'field': fld, 'n': n, 'kind': 'nan-pattern'})
            elif cond is not True:
                ctx.prove(cond, 'C14:single-value-on-long-input-equals-sequential-on-warmup-window', {'indicator': name, 'field': fld, 'n': n},
                          witness=indh.clear_difference(arr[-1], sv))
            ctx.event('window-compared')
    ctx.event('indicator-compared')


JOBFN = {'h_agree': h_agree}


def _jobs(tier):
    jobs = []
    names = indh.indicator_names()
    lens = (5, 8) if tier == 'quick' else (4, 6, 9)
    cap = 120 if tier == 'quick' else 3000
    tcap = 8 if tier == 'quick' else 300
    for nm in names:
        for n in lens:
            jobs.append(Job('ind_%s_n%d' % (nm, n), h_agree, {'name': nm, 'n': n, 'variant': 0},
                            {'max_paths': cap, 'max_job_seconds': tcap, 'max_decisions': 3000, 'stop_on_error': True, 'max_path_seconds': 8 if tier == 'quick' else 120,
                             'prove_timeout_ms': 3000 if tier == 'quick' else 20000, 'feas_timeout_ms': 2000}))
    # boundary parameter set: the shortest period equals the amount of data (5 candles; 8 candles cut to the window of 6)
    for nm in names:
        for n in ((5, 8) if tier == 'quick' else (4, 6, 9)):
            jobs.append(Job('ind_%s_edge_n%d' % (nm, n), h_agree, {'name': nm, 'n': n, 'variant': 0, 'edge': True},
                            {'max_paths': 60 if tier == 'quick' else 200, 'max_job_seconds': 6 if tier == 'quick' else 20, 'max_decisions': 3000, 'stop_on_error': True,
                             'max_path_seconds': 8 if tier == 'quick' else 20, 'prove_timeout_ms': 3000 if tier == 'quick' else 5000, 'feas_timeout_ms': 2000}))
    if tier != 'quick':
        for src in ('high', 'low', 'open', 'volume', 'hl2', 'hlc3', 'ohlc4'):
            for nm in ('sma', 'ema', 'wma', 'rsi', 'stddev', 'roc'):
                jobs.append(Job('ind_%s_n9_src_%s' % (nm, src), h_agree, {'name': nm, 'n': 9, 'variant': 0, 'source_type': src},
                                {'max_paths': cap, 'max_job_seconds': tcap, 'stop_on_error': True, 'max_path_seconds': 120}))
    return jobs


def setup(tier, seed):
    from ..engine import jstubs
    indh.install()
    jobs = _jobs(tier)
    return {
        'jobs': jobs,
        'tolerant_jobs': True,
        'min_encoded': 80,
        'budget_s': 780 if tier == 'quick' else 3300,
        'explanation': 'every public indicator runs on n symbolic candles with the warm-up window configured to 6 (env.data.warmup_candles_num, read by '
                       'helpers.slice_candles): every field of the sequential result has n entries; for n <= 6 its last entry equals the non-sequential '
                       'result; for n > 6 the non-sequential result equals the sequential result on the trailing 6 candles (z3 equality, NaN pattern '
                       'concrete). minmax is exempt as documented. Indicators that cannot run on proxies are listed under not_encoded.',
        'bounds': {'lengths': [5, 8] if tier == 'quick' else [4, 6, 9], 'warmup_window': WARM, 'periods': 'lowered to 2/3'},
        'outside': ['the default window 240 and default periods', 'indicators listed under not_encoded', 'float rounding'],
        'stubs': list(jstubs.INSTALLED),
        'assumptions': ['floats as reals'],
        'must_reach': ['last-entry-compared', 'window-compared', 'C14:sequential-result-has-one-entry-per-candle'],
    }


def signature(v):
    info = v.get('info') or {}
    return '%s|%s' % (v['label'], info.get('indicator', v.get('bounds', {}).get('name')))


def make_witness(v):
    return {'fn': 'h_agree', 'kwargs': v['bounds'], 'label': v['label'], 'model': v['model'], 'info': v.get('info')}


def replay(w):
    return replay_harness(JOBFN[w['fn']], w['kwargs'], w['model'], w['label'])
