"""C16 - reported metrics are consistent with the trades and the equity series.

H-KERNEL: the unmodified services.metrics.trades runs on REAL pandas with dtype=object columns holding proxies; only the
reductions that insist on float64 are replaced (for object dtype only) by textbook definitions.  H-SESSION: equity samples.
"""
import numpy as np

from ..engine import symex as sx
from ..engine.explore import Job
from ..engine.concrete import replay_harness
from . import session as S
from .common import And, Or, Not, Implies, close_to

ID = 'C16'
_PATCHED = []


def _isnan(v):
    return (not sx.is_sym(v)) and isinstance(v, (float, np.floating)) and v != v


def _vals(x):
    return [v for v in x if v is not None and not _isnan(v)]


def install():
    """stubs for the metrics module + object-dtype versions of the pandas reductions that insist on float64"""
    import pandas as pd
    from ..engine import jstubs
    from ..engine.npshim import SHIM
    jstubs.install_core()
    jstubs.setattr_mod('jesse.services.metrics', 'np', SHIM, 'numpy shim')
    jstubs.setattr_mod('jesse.services.metrics', 'float', jstubs.pfloat)
    jstubs.setattr_mod('jesse.services.metrics', 'int', jstubs.pint)
    jstubs.setattr_mod('jesse.services.metrics', 'abs', lambda x: sx.sabs(x) if sx.is_sym(x) else abs(x))
    if _PATCHED:
        return

    def wrap_series(name, impl):
        orig = getattr(pd.Series, name)

        def f(self, *a, **k):
            if self.dtype == object and any(sx.is_sym(v) for v in self.values):
                r = impl(self, *a, **k)
                if isinstance(r, sx.SymReal) and not r.npf:
                    r = sx.SymReal(r.t, True)  # pandas reductions return numpy float64 scalars
                return r
            return orig(self, *a, **k)
        setattr(pd.Series, name, f)
        _PATCHED.append('pandas.Series.%s (object dtype: textbook definition, NaN skipped)' % name)

    def s_mean(self, *a, **k):
        v = _vals(self.values)
        if not v:
            return np.nan
        t = 0.0
        for e in v:
            t = t + e
        return t / len(v)

    def s_std(self, ddof=1, *a, **k):
        v = _vals(self.values)
        if len(v) - ddof <= 0:
            return np.nan
        m = s_mean(self)
        t = 0.0
        for e in v:
            t = t + (e - m) * (e - m)
        return sx.usqrt_total(t / (len(v) - ddof))

    def s_sum(self, *a, **k):
        t = 0.0
        for e in _vals(self.values):
            t = t + e
        return t

    def s_prod(self, *a, **k):
        t = 1.0
        for e in _vals(self.values):
            t = t * e
        return t

    def s_min(self, *a, **k):
        v = _vals(self.values)
        if not v:
            return np.nan
        r = v[0]
        for e in v[1:]:
            r = sx.smin(r, e)
        return r

    def s_max(self, *a, **k):
        v = _vals(self.values)
        if not v:
            return np.nan
        r = v[0]
        for e in v[1:]:
            r = sx.smax(r, e)
        return r

    def s_cumprod(self, *a, **k):
        out = []
        t = None
        for e in self.values:
            if e is None or _isnan(e):
                out.append(e)
                continue
            t = e if t is None else t * e
            out.append(t)
        return pd.Series(np.array(out, dtype=object), index=self.index)

    for nm, impl in (('mean', s_mean), ('std', s_std), ('sum', s_sum), ('prod', s_prod), ('min', s_min), ('max', s_max), ('cumprod', s_cumprod)):
        wrap_series(nm, impl)

    for nm in ('mean', 'std', 'sum', 'prod', 'min', 'max'):
        orig = getattr(pd.DataFrame, nm)

        def mk(orig, nm):
            def f(self, *a, **k):
                if any(self[c].dtype == object and any(sx.is_sym(v) for v in self[c].values) for c in self.columns):
                    return pd.Series({c: getattr(self[c], nm)(*a, **k) for c in self.columns})
                return orig(self, *a, **k)
            return f
        setattr(pd.DataFrame, nm, mk(orig, nm))
    orig_cp = pd.DataFrame.cumprod

    def df_cumprod(self, *a, **k):
        if any(self[c].dtype == object for c in self.columns):
            return pd.DataFrame({c: self[c].cumprod() for c in self.columns}, index=self.index)
        return orig_cp(self, *a, **k)
    pd.DataFrame.cumprod = df_cumprod
    _PATCHED.append('pandas.DataFrame.mean/std/sum/prod/min/max/cumprod (object dtype: column-wise textbook definitions)')

    from pandas.core.window.expanding import Expanding
    orig_emax = Expanding.max

    def e_max(self, *a, **k):
        obj = self._selected_obj
        is_obj = (obj.dtype == object) if isinstance(obj, pd.Series) else any(obj[c].dtype == object for c in obj.columns)
        if not is_obj:
            return orig_emax(self, *a, **k)

        def run(s):
            out = []
            r = None
            for e in s.values:
                if e is None or _isnan(e):
                    out.append(r if r is not None else np.nan)
                    continue
                r = e if r is None else sx.smax(r, e)
                out.append(r)
            return pd.Series(np.array(out, dtype=object), index=s.index)
        if isinstance(obj, pd.Series):
            return run(obj)
        return pd.DataFrame({c: run(obj[c]) for c in obj.columns}, index=obj.index)
    Expanding.max = e_max
    _PATCHED.append('pandas Expanding.max (object dtype: running If-max, NaN skipped)')


# ---- references ------------------------------------------------------------------------------------------------------------


def mk_trade(ctx, i, fee, exchange, symq=True):
    """a real ClosedTrade built from symbolic fills (one entry, one exit)"""
    from jesse.models import ClosedTrade
    is_long = ctx.bool('long%d' % i)
    long = bool(is_long)
    q = ctx.real('q%d' % i, 0.01, 100) if symq else float(i + 1)
    pe = ctx.real('pe%d' % i, 1, 1000)
    px = ctx.real('px%d' % i, 1, 1000)
    t = ClosedTrade()
    t.id = 'trade%d' % i
    t.type = 'long' if long else 'short'
    t.exchange = exchange
    t.symbol = S.SYMBOL
    t.strategy_name = 'X'
    t.timeframe = '1m'
    t.leverage = 2
    t.opened_at = S.T0 + i * 3600_000
    t.closed_at = S.T0 + i * 3600_000 + 60_000 * (i + 1)
    entry, exit_ = (t.buy_orders, t.sell_orders) if long else (t.sell_orders, t.buy_orders)
    row = np.empty(2, dtype=object)
    row[0], row[1] = q, pe
    entry.append(row)
    row2 = np.empty(2, dtype=object)
    row2[0], row2[1] = q, px
    exit_.append(row2)
    sign = 1.0 if long else -1.0
    pnl = q * (px - pe) * sign - fee * q * (pe + px)
    tfee = fee * q * (pe + px)
    return t, {'pnl': pnl, 'fee': tfee, 'long': long, 'hold': (t.closed_at - t.opened_at) / 1000}


def h_metrics(ctx, ntrades=2, nbal=3, ratios=True, symbal=1, symstart=True, balset=0):
    from jesse.services import metrics
    from .apih import ApiSession
    # one trade: everything symbolic; several trades: fee and quantities concrete so that the PnL signs stay linear in the prices
    fee = ctx.real('fee', 0, 0.01) if ntrades == 1 else 1.0 / 1024  # a binary fraction: break-even trades have float-exact witnesses
    # with three or more daily balances the starting balance is concrete: the variance of the returns stays univariate
    start = ctx.real('start', 1000, 100000) if symstart else 10000.0
    cfg = S.config_dict('futures', leverage=2, fee=fee, balance=start)
    api = ApiSession(cfg, symbols=(S.SYMBOL,), price0=100.0)
    trades, refs = [], []
    for i in range(ntrades):
        t, r = mk_trade(ctx, i, fee, api.exchange_name, symq=(ntrades == 1))
        trades.append(t)
        refs.append(r)
    # the last `symbal` daily balances are symbolic, the others are concrete multiples of the starting balance
    conc = [[1.0, 1.02, 0.97, 1.05, 1.01, 0.99], [1.0, 0.9, 0.9, 1.2, 0.8, 1.1], [1.0, 1.01, 1.03, 1.06, 1.1, 1.15], [1.0, 0.99, 0.95, 0.9, 0.97, 0.93]][balset % 4]
    bal = [start]
    for i in range(1, nbal):
        if i >= nbal - symbal:
            bal.append(ctx.real('b%d' % i, 100, 200000, npf=True))
        else:
            bal.append(start * conc[i % len(conc)])
    m = metrics.trades(trades, list(bal))
    pn = [r['pnl'] for r in refs]
    wins = [p for p in pn if bool(p > 0)]
    losses = [p for p in pn if bool(p < 0)]
    zeros = len(pn) - len(wins) - len(losses)
    ctx.event('pattern-w%d-l%d-z%d' % (len(wins), len(losses), zeros))
    P = lambda c, lab, **info: ctx.prove(c, 'C16:' + lab, info)
    P(m['total'] == ntrades and m['total'] == m['total_winning_trades'] + m['total_losing_trades'] + zeros, 'total-is-winners-plus-losers-plus-break-even',
      got=repr((m['total'], m['total_winning_trades'], m['total_losing_trades'], zeros)))
    P(m['total_winning_trades'] == len(wins) and m['total_losing_trades'] == len(losses), 'winner-and-loser-counts')
    wr = (len(wins) / (len(wins) + len(losses))) if wins else 0
    P(ctx.equal(m['win_rate'], wr), 'win-rate-is-winners-over-winners-plus-losers')
    tot = 0.0
    for p in pn:
        tot = tot + p
    gp = 0.0
    for p in wins:
        gp = gp + p
    gl = 0.0
    for p in losses:
        gl = gl + p
    P(And(ctx.equal(m['net_profit'], tot), ctx.equal(m['gross_profit'], gp), ctx.equal(m['gross_loss'], gl),
          ctx.equal(m['net_profit'], m['gross_profit'] + m['gross_loss'])), 'net-profit-is-sum-of-pnl-is-gross-profit-plus-gross-loss')
    P(ctx.equal(m['net_profit_percentage'] * start, tot * 100), 'net-profit-percentage-of-starting-balance')
    nl = sum(1 for r in refs if r['long'])
    P(m['longs_count'] == nl and m['shorts_count'] == ntrades - nl and m['longs_count'] + m['shorts_count'] == m['total'], 'long-and-short-counts-sum-to-total')
    P(And(ctx.equal(m['longs_percentage'] + m['shorts_percentage'], 100.0), ctx.equal(m['longs_percentage'], nl / ntrades * 100)), 'long-short-percentages-sum-to-100')
    ft = 0.0
    for r in refs:
        ft = ft + r['fee']
    P(ctx.equal(m['fee'], ft), 'fee-is-sum-of-trade-fees')

    def mx(xs):
        r = xs[0]
        for x in xs[1:]:
            r = sx.smax(r, x)
        return r

    def mn(xs):
        r = xs[0]
        for x in xs[1:]:
            r = sx.smin(r, x)
        return r
    P(ctx.equal(m['largest_winning_trade'], mx(wins) if wins else 0), 'largest-winning-trade')
    P(ctx.equal(m['largest_losing_trade'], mn(losses) if losses else 0), 'largest-losing-trade')
    aw = (gp / len(wins)) if wins else None
    al = (-(gl / len(losses))) if losses else None
    P(_isnan(m['average_win']) if aw is None else ctx.equal(m['average_win'], aw), 'average-win')
    P(_isnan(m['average_loss']) if al is None else ctx.equal(m['average_loss'], al), 'average-loss')
    exp = (aw if aw is not None else 0) * wr - (al if al is not None else 0) * (1 - wr)
    P(ctx.equal(m['expectancy'], exp), 'expectancy')
    P(ctx.equal(m['expectancy_percentage'] * start, exp * 100), 'expectancy-percentage')
    # streaks: direct fold over the PnL signs
    s = 0
    seq = []
    for p in pn:
        if bool(p > 0):
            s = s + 1 if s > 0 else 1
        elif bool(p < 0):
            s = s - 1 if s < 0 else -1
        else:
            s = 0
        seq.append(s)
    P(m['winning_streak'] == max(max(seq), 0) and m['losing_streak'] == (0 if min(seq) > 0 else abs(min(seq))) and m['current_streak'] == seq[-1],
      'streaks-follow-from-the-pnl-sequence', seq=seq, got=[m['winning_streak'], m['losing_streak'], m['current_streak']])
    hold = [r['hold'] for r in refs]
    P(ctx.equal(m['average_holding_period'], sum(hold) / len(hold)), 'average-holding-period')
    P(ctx.equal(m['starting_balance'], start), 'starting-balance')
    ctx.event('trade-identities-checked')
    if not ratios or nbal < 2:
        return
    # ---- ratio metrics on the daily equity returns (365-day year) ----
    rets = [bal[i] / bal[i - 1] - 1 for i in range(1, nbal)]
    n = len(rets)
    # max drawdown (standard definition on the equity series): min over t of E_t / max_{s<=t} E_s - 1, in percent, where the series
    # starts with the starting balance itself (wealth index 1 before the first return)
    cum = [1.0]
    c = 1.0
    for r in rets:
        c = c * (1 + r)
        cum.append(c)
    run = []
    rm = None
    for c in cum:
        rm = c if rm is None else sx.smax(rm, c)
        run.append(rm)
    dd = mn([cum[i] / run[i] for i in range(len(cum))]) - 1
    P(ctx.equal(m['max_drawdown'], dd * 100), 'max-drawdown-definition')
    P(m['max_drawdown'] <= 0, 'max-drawdown-never-positive')
    # Calmar = annual return / |maximum drawdown| (both as reported, in percent); 0 by convention when there is no drawdown.  The
    # fractional power inside the annual return stays an uninterpreted term: the identity is linear in it.
    cal, ar, mdd = m.get('calmar_ratio'), m.get('annual_return'), m['max_drawdown']
    if cal is not None and ar is not None and not (_isnan(cal) or _isnan(ar)):
        P(Or(And(mdd == 0, cal == 0), And(Not(mdd == 0), close_to(cal * (-mdd), ar, sx.sabs(ar) + 1.0 if sx.is_sym(ar) else abs(ar) + 1.0, tol=1e-9))),
          'calmar-is-annual-return-over-max-drawdown')
    K = float(np.sqrt(365)) ** 2  # the code multiplies by the double sqrt(365): fold the constant the same way
    mean = 0.0
    for r in rets:
        mean = mean + r
    mean = mean / n
    if n >= 2:
        var = 0.0
        for r in rets:
            var = var + (r - mean) * (r - mean)
        var = var / (n - 1)
        # sharpe = mean/std*sqrt(365)  <=>  sharpe*std == mean*sqrt(365); with std = sqrt(var): compare squares and signs
        sh = m['sharpe_ratio']
        if sx.is_sym(sh) or (not _isnan(sh) and sh not in (np.inf, -np.inf)):
            P(And(close_to(sh * sh * var, mean * mean * K, sx.sabs(mean * mean * K) + 1e-30, tol=1e-12),
                  Or(And(sh >= 0, mean >= 0), And(sh <= 0, mean <= 0))), 'sharpe-ratio-definition')
        else:
            P(close_to(var, 0.0, 1.0, tol=1e-18), 'sharpe-ratio-definition', undefined=True)  # zero variance: the ratio is undefined (inf/nan)
    # sortino: mean / sqrt(sum(neg^2)/n) * sqrt(365)
    so = m['sortino_ratio']
    dsq = 0.0
    for r in rets:
        dsq = dsq + sx.ite(r < 0, r * r, 0.0)
    dsq = dsq / n
    if sx.is_sym(so) or (not _isnan(so) and so not in (np.inf, -np.inf)):
        P(And(close_to(so * so * dsq, mean * mean * K, sx.sabs(mean * mean * K) + 1e-30, tol=1e-12),
              Or(And(so >= 0, mean >= 0), And(so <= 0, mean <= 0))), 'sortino-ratio-definition')
    else:
        P(close_to(dsq, 0.0, 1.0, tol=1e-18), 'sortino-ratio-definition', undefined=True)
    # omega: sum of positive excess / -sum of negative excess (threshold 0)
    om = m['omega_ratio']
    num = 0.0
    den = 0.0
    for r in rets:
        num = num + sx.ite(r > 0, r, 0.0)
        den = den - sx.ite(r < 0, r, 0.0)
    if _isnan(om):
        P(Not(den > 0), 'omega-ratio-definition')
    else:
        P(And(den > 0, close_to(om * den, num, (sx.sabs(num) if sx.is_sym(num) else abs(num)) + 1e-12, tol=1e-9)), 'omega-ratio-definition')
    ctx.event('ratio-identities-checked')


def h_equity(ctx, days=2, exch='futures', two_routes=False, side='long', extra_minutes=7, second_rests=False):
    """equity samples: concrete candles, symbolic starting balance / fee / quantity.  extra_minutes=0: a session of an exact number
    of days; second_rests: the second route keeps a resting (never filled) limit buy, so quote is reserved outside the first route"""
    n = 1440 * days + extra_minutes
    start = ctx.real('start', 5000, 100000)
    fee = ctx.real('fee', 0, 0.005)
    q = ctx.real('q', 0.1, 5)
    rows = []
    price = 100.0
    for i in range(n):
        np_ = 100.0 + 10.0 * np.sin(i / 97.0) + (i % 13) * 0.1
        rows.append([S.T0 + i * S.MIN, price, np_, max(price, np_) + 0.2, min(price, np_) - 0.2, 5.0])
        price = np_
    samples = []
    Strategy = S.base_strategy()

    class E(Strategy):
        def should_long(self):
            return side == 'long' and self.index % 700 == 3

        def should_short(self):
            return side == 'short' and self.index % 700 == 3

        def go_long(self):
            self.buy = q, self.price

        def go_short(self):
            self.sell = q, self.price

        def should_cancel_entry(self):
            return True

        def update_position(self):
            if self.index % 700 == 400:
                self.liquidate()

        def terminate(self):
            rec = S.REC
            rec.refs['app'] = __import__('jesse.store', fromlist=['store']).store.app
            rec.refs['exchange_obj'] = self.position.exchange
            rec.refs['position'] = self.position
            rec.refs['strategy'] = self

    import jesse.modes.utils as mu
    import jesse.modes.backtest_mode as bm
    orig = bm.save_daily_portfolio_balance

    def spy(is_initial=False):
        from jesse.store import store
        orig(is_initial)
        ex = list(store.exchanges.storage.values())[0]
        pos = list(store.positions.storage.values())
        if ex.type == 'futures':
            eq = ex.assets['USDT']
            for p in pos:
                if p.is_open:
                    eq = eq + (p.current_price - p.entry_price) * p.qty
        else:
            eq = ex.assets['USDT']
            for p in pos:
                eq = eq + p.qty * (p.current_price if p.current_price is not None else 0.0)
                for o in store.orders.get_orders(p.exchange_name, p.symbol):
                    if o.is_active and o.side == 'buy':
                        eq = eq + abs(o.qty) * o.price
        samples.append((store.app.time, eq, store.app.daily_balance[-1]))
    bm.save_daily_portfolio_balance = spy
    try:
        cfg = S.config_dict(exch, leverage=2, fee=fee, balance=start)
        extra = None
        if two_routes:
            from .apih import passive_strategy
            second = passive_strategy()
            if second_rests:
                class R(Strategy):
                    def should_long(self):
                        return self.index == 5

                    def go_long(self):
                        self.buy = 2.0, 20.0  # far below the market (ETH trades around 50): rests for the whole session

                    def should_cancel_entry(self):
                        return False
                second = R
            extra = [('ETH-USDT', S.make_candles([[r[0], r[1] / 2, r[2] / 2, r[3] / 2, r[4] / 2, r[5]] for r in rows]), second, '1m')]
        rec = S.run_session(S.make_candles(rows), E, cfg, extra=extra)
    finally:
        bm.save_daily_portfolio_balance = orig
    db = rec.refs['app'].daily_balance
    # one sample per started day (the first one is the starting balance) plus the final one
    started_days = (n + 1439) // 1440
    ctx.prove(len(db) == started_days + 1, 'C16:one-equity-sample-per-day-plus-initial-and-final', {'samples': len(db), 'minutes': n, 'started_days': started_days})
    ctx.prove(ctx.equal(db[0], start), 'C16:equity-series-starts-at-starting-balance')
    for (t, eq, recorded) in samples:
        ctx.prove(close_to(recorded, eq, 100000.0), 'C16:equity-sample-equals-account-equity', {'time': t})
    ctx.event('equity-checked')


JOBFN = {'h_metrics': h_metrics, 'h_equity': h_equity}


def _jobs(tier):
    jobs = []
    opts = {'max_decisions': 6000, 'nlsat_fallback': True, 'prove_timeout_ms': 90000, 'feas_timeout_ms': 60000, 'max_path_seconds': 300}
    # trade identities (no ratios) for 1..3 (4,5) trades; ratio identities with one trade and 2..4 (5) daily balances
    for nt in ((1, 2, 3) if tier == 'quick' else (1, 2, 3, 4, 5)):
        jobs.append(Job('metrics_t%d_b2' % nt, h_metrics, {'ntrades': nt, 'nbal': 2, 'symbal': 1, 'ratios': False}, dict(opts)))
    # ratio identities: one symbolic daily return (2 balances); with 3..5 balances the balance list is concrete (four fixed shapes:
    # mixed, volatile, rising, falling) - the Sharpe identity with a symbolic variance did not decide reliably within the time limit
    jobs.append(Job('ratios_t1_b2', h_metrics, {'ntrades': 1, 'nbal': 2, 'symbal': 1, 'ratios': True}, dict(opts)))
    for nb in ((3, 4) if tier == 'quick' else (3, 4, 5, 6)):
        for bs in ((0, 1) if tier == 'quick' else (0, 1, 2, 3)):
            jobs.append(Job('ratios_t1_b%d_set%d' % (nb, bs), h_metrics, {'ntrades': 1, 'nbal': nb, 'symbal': 0, 'ratios': True, 'symstart': False, 'balset': bs}, dict(opts)))
    jobs.append(Job('equity_1d_futures', h_equity, {'days': 1, 'exch': 'futures'}, dict(opts)))
    jobs.append(Job('equity_1d_futures_short', h_equity, {'days': 1, 'exch': 'futures', 'side': 'short'}, dict(opts)))
    if tier != 'quick':
        jobs.append(Job('equity_2d_futures', h_equity, {'days': 2, 'exch': 'futures'}, dict(opts)))
        jobs.append(Job('equity_1d_spot', h_equity, {'days': 1, 'exch': 'spot'}, dict(opts)))
        jobs.append(Job('equity_1d_two_routes', h_equity, {'days': 1, 'exch': 'futures', 'two_routes': True}, dict(opts)))
        jobs.append(Job('equity_3d_futures', h_equity, {'days': 3, 'exch': 'futures'}, dict(opts)))
        jobs.append(Job('equity_2d_futures_short', h_equity, {'days': 2, 'exch': 'futures', 'side': 'short'}, dict(opts)))
        jobs.append(Job('equity_2d_spot', h_equity, {'days': 2, 'exch': 'spot'}, dict(opts)))
    # a session of an exact number of days; a second spot route that keeps quote reserved in a resting buy
    jobs.append(Job('equity_1d_exact', h_equity, {'days': 1, 'exch': 'futures', 'extra_minutes': 0}, dict(opts)))
    jobs.append(Job('equity_1d_spot_two_routes_resting', h_equity, {'days': 1, 'exch': 'spot', 'two_routes': True, 'second_rests': True}, dict(opts)))
    return jobs


def setup(tier, seed):
    from ..engine import jstubs
    install()
    S.install_monitors()
    jobs = _jobs(tier)
    return {
        'jobs': jobs,
        'budget_s': 780 if tier == 'quick' else 3300,
        'explanation': 'the unmodified services.metrics.trades and ratio helpers run on real pandas with dtype=object columns: real ClosedTrade objects are '
                       'built from symbolic fills (side, qty, entry, exit), the daily balances are symbolic; z3 proves every identity of the statement against '
                       'direct folds over the same symbols (counts, win rate, net/gross profit, percentages, fee, largest/average win and loss, expectancy, '
                       'streaks; max drawdown, Sharpe, Sortino, Omega through their defining identities; max drawdown <= 0). Equity samples: sessions of 1-2 '
                       'days with concrete candles and symbolic starting balance/fee/quantity, a wrapper around save_daily_portfolio_balance recomputes the '
                       'account equity from the real objects at each sample.',
        'bounds': {'trades': [j.kwargs.get('ntrades') for j in jobs if 'ntrades' in j.kwargs], 'daily_balances': '2 (symbolic return) and 3-6 (concrete balance lists of four shapes)', 'sessions': '1-2 days, concrete candles'},
        'outside': ['more than 3 (quick) / 5 (thorough) trades, more than 4 / 6 balances', 'serenity index, smart ratios, CAGR and Calmar (fractional powers)', 'float rounding'],
        'stubs': list(jstubs.INSTALLED) + list(_PATCHED),
        'assumptions': ['floats as reals; sqrt through its defining identity'],
        'must_reach': ['trade-identities-checked', 'ratio-identities-checked', 'equity-checked'],
    }


def signature(v):
    return v['label']


def make_witness(v):
    fn = 'h_equity' if v['job'].startswith('equity') else 'h_metrics'
    return {'fn': fn, 'kwargs': v['bounds'], 'label': v['label'], 'model': v['model'], 'info': v.get('info')}


def replay(w):
    S.install_monitors()
    return replay_harness(JOBFN[w['fn']], w['kwargs'], w['model'], w['label'])
