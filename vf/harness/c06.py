"""C06 - position events and the trade log are a faithful record of the fills (H-SESSION)."""
import numpy as np

from ..engine import symex as sx
from ..engine.explore import Job
from ..engine.concrete import replay_harness
from . import session as S
from .common import And, Or, Not, Implies, close_to
from .c03 import MarginModel, _is_zero

ID = 'C06'
HOOKS = {'open': ['on_open_position'], 'increase': ['on_increased_position'], 'reduce': ['on_reduced_position'],
         'close': ['on_close_position'], 'flip': ['on_close_position', 'on_open_position'], 'none': []}


def _abs(x):
    return sx.sabs(x) if sx.is_sym(x) else abs(x)


def expected_from_fills(ctx, rec, fee, leverage, w0):
    """fold the observed fills through the average-cost model: expected hook sequence and closed trades"""
    model = MarginModel(w0, fee, leverage, [S.SYMBOL])
    cycles = []
    cur = None
    per_fill = []
    for (kind, t, pl) in rec.events:
        if kind != 'fill':
            continue
        od = pl['order']
        q_before = model.q[S.SYMBOL]
        eff = model.fill(ctx, S.SYMBOL, od.qty, od.price, od.reduce_only)
        q_after = model.q[S.SYMBOL]
        per_fill.append((od, eff, q_after, t))
        aq = _abs(od.qty)
        if eff == 'open':
            cur = {'type': 'long' if bool(od.qty > 0) else 'short', 'entries': [(aq, od.price)], 'exits': [], 'opened_at': t,
                   'orders': [od], 'closed_at': None}
        elif eff == 'increase':
            cur['entries'].append((aq, od.price))
            cur['orders'].append(od)
        elif eff == 'reduce':
            cur['exits'].append((aq, od.price))
            cur['orders'].append(od)
        elif eff in ('close', 'flip'):
            rem = _abs(q_before)
            cur['exits'].append((rem, od.price))
            cur['orders'].append(od)
            cur['closed_at'] = t
            cur['oversize'] = eff == 'close' and (not _is_zero(aq - rem) if not sx.is_sym(aq - rem) else bool(aq != rem))
            cycles.append(cur)
            cur = None
            if eff == 'flip':
                cur = {'type': 'long' if bool(od.qty > 0) else 'short', 'entries': [(_abs(q_after), od.price)], 'exits': [],
                       'opened_at': t, 'orders': [od], 'closed_at': None}
        ctx.event('effect-' + eff)
    return model, cycles, cur, per_fill


def wsum(rows):
    tot = 0.0
    q = 0.0
    for (a, p) in rows:
        tot = tot + a * p
        q = q + a
    return tot, q


def trade_obligations(ctx, rec, cfgv):
    fee, leverage, w0 = cfgv
    model, cycles, open_cycle, per_fill = expected_from_fills(ctx, rec, fee, leverage, w0)
    has_flip = any(eff == 'flip' for (_, eff, _, _) in per_fill)
    has_over = any(c.get('oversize') for c in cycles)
    flags = {'path_has_flip': has_flip, 'path_has_oversize_exit': has_over}
    # ---- hooks: each fill reported exactly once through the matching hook with the implied position size
    for (od, eff, q_after, t) in per_fill:
        got = [(h, pl) for (tt, h, pl) in rec.hooks if h.startswith('on_') and h.endswith('_position') and pl.get('order') is od]
        names = [h for h, _ in got]
        ctx.prove(names == HOOKS[eff], 'C06:fill-reported-once-through-matching-hook',
                  dict(flags, effect=eff, hooks=names, order=rec.order_info[id(od)]['seq']))
        if got and eff != 'flip':
            ctx.prove(ctx.equal(got[-1][1]['snap']['qty'], q_after), 'C06:hook-sees-implied-position-size', dict(flags, effect=eff))
    # ---- well-formed cycles
    seq = [eff for (_, eff, _, _) in per_fill if eff != 'none']
    state = 'closed'
    ok = True
    for e in seq:
        if e == 'open':
            ok = ok and state == 'closed'
            state = 'open'
        elif e in ('increase', 'reduce'):
            ok = ok and state == 'open'
        elif e == 'close':
            ok = ok and state == 'open'
            state = 'closed'
        elif e == 'flip':
            ok = ok and state == 'open'
    ctx.prove(ok, 'C06:well-formed-cycles', dict(flags, effects=seq))
    # ---- one closed trade per cycle with the fills of that cycle
    trades = rec.refs['trades']
    ctx.prove(len(trades) == len(cycles), 'C06:one-closed-trade-per-cycle', dict(flags, trades=len(trades), cycles=len(cycles)))
    total_pnl = 0.0
    for i, cyc in enumerate(cycles):
        if i >= len(trades):
            break
        t = trades[i]
        tag = dict(flags, trade=i)
        ctx.event('closed-trade')
        if cyc.get('oversize'):
            ctx.event('cycle-closed-by-oversize-exit')
        ctx.prove(t.type == cyc['type'], 'C06:trade-side', tag)
        ev, eq = wsum(cyc['entries'])
        xv, xq = wsum(cyc['exits'])
        ctx.prove(ctx.equal(t.qty, eq), 'C06:trade-qty-is-sum-of-entry-fills', tag)
        # the trade's own entry_price / exit_price against the quantity-weighted mean of the effective fills (cross-multiplied)
        ctx.prove(ctx.equal(t.entry_price * eq, ev), 'C06:trade-entry-price-is-qty-weighted', tag)
        ctx.prove(ctx.equal(t.exit_price * xq, xv), 'C06:trade-exit-price-is-qty-weighted-over-effective-fills', tag)
        ctx.prove(t.opened_at == cyc['opened_at'] and t.closed_at == cyc['closed_at'], 'C06:trade-open-close-times', tag)
        ctx.prove(len(t.orders) == len(cyc['orders']) and all(a is b for a, b in zip(t.orders, cyc['orders'])),
                  'C06:trade-order-list', tag)
        total_pnl = total_pnl + t.pnl
    # ---- futures: sum of trade PnL (net of fees) equals the change of the wallet balance
    ex = rec.refs['exchange_obj']
    if ex.type == 'futures' and open_cycle is None:
        ctx.prove(close_to(total_pnl, ex.wallet_balance - w0, _abs(w0)), 'C06:net-pnl-of-trades-equals-wallet-change',
                  dict(flags, trades=len(trades)))
        ctx.prove(close_to(ex.wallet_balance, model.w, _abs(w0)), 'C06:wallet-equals-model', dict(flags))
    ctx.event('session')


def _template(ctx, kind, side):
    long = side == 'long'
    if kind == 'T1':
        pe = ctx.real('pe', 50, 200)
        sl = ctx.real('sl', 50, 200)
        tp = ctx.real('tp', 50, 200)
        ctx.constrain(And(sl < pe, pe < tp, sl < 99.9, tp > 100.1) if long else And(tp < pe, pe < sl, sl > 100.1, tp < 99.9))
        return S.make_template(side=side, entry=pe, stop=sl, take=tp, qty=1.0, name='T1')
    if kind == 'T2':  # ladder, stop sized for the whole ladder (oversize when only one point filled)
        p2 = ctx.real('p2', 50, 200)
        sl = ctx.real('sl', 50, 200)
        ctx.constrain(And(sl < p2, sl < 99.9) if long else And(sl > p2, sl > 100.1))
        return S.make_template(side=side, entry=[(1.0, 100.0), (1.0, p2)], stop=[(2.0, sl)], qty=2.0, name='T2', cancel_entry=False)
    if kind == 'T3':  # take-profit ladder, stop resized after a reduction
        sl = ctx.real('sl', 50, 200)
        t1 = ctx.real('t1', 50, 200)
        t2 = ctx.real('t2', 50, 200)
        ctx.constrain(And(sl < 99.9, t1 > 100.1, t2 > 100.1) if long else And(sl > 100.1, t1 < 99.9, t2 < 99.9))
        return S.make_template(side=side, entry=None, stop=[(2.0, sl)], take=[(1.0, t1), (1.0, t2)], qty=2.0, name='T3',
                               reduced_stop=lambda s: [(abs(s.position.qty), sl)])
    if kind == 'T3u':  # take-profit ladder with UNEQUAL sizes
        sl = ctx.real('sl', 50, 200)
        t1 = ctx.real('t1', 50, 200)
        t2 = ctx.real('t2', 50, 200)
        ctx.constrain(And(sl < 99.9, t1 > 100.1, t2 > 100.1) if long else And(sl > 100.1, t1 < 99.9, t2 < 99.9))
        return S.make_template(side=side, entry=None, stop=[(3.0, sl)], take=[(1.0, t1), (2.0, t2)], qty=3.0, name='T3u',
                               reduced_stop=lambda s: [(abs(s.position.qty), sl)])
    if kind == 'T3o':  # partial take-profit, stop NOT resized: oversize reduce-only stop after the reduction
        sl = ctx.real('sl', 50, 200)
        t1 = ctx.real('t1', 50, 200)
        ctx.constrain(And(sl < 99.9, t1 > 100.1) if long else And(sl > 100.1, t1 < 99.9))
        return S.make_template(side=side, entry=None, stop=[(2.0, sl)], take=[(1.0, t1)], qty=2.0, name='T3o')
    if kind == 'T9':  # partial take-profit, then the position is increased again by an entry declared in on_reduced_position
        sl = ctx.real('sl', 50, 200)
        t1 = ctx.real('t1', 50, 200)
        pb = ctx.real('pb', 50, 200)
        ctx.constrain(And(sl < 99.9, t1 > 100.1, pb > sl + 0.5, pb < t1 - 0.5) if long else And(sl > 100.1, t1 < 99.9, pb < sl - 0.5, pb > t1 + 0.5))

        def again(s, order):
            if not s.vars.get('again'):
                s.vars['again'] = True
                if long:
                    s.buy = (1.0, pb)
                else:
                    s.sell = (1.0, pb)
        resize = lambda s, order=None: setattr(s, 'stop_loss', [(abs(s.position.qty), sl)])
        return S.make_template(side=side, entry=None, stop=[(2.0, sl)], take=[(1.0, t1)], qty=2.0, name='T9',
                               reduced_stop=lambda s: [(abs(s.position.qty), sl)], increased=resize,
                               extra_hooks={'on_reduced_position': again})
    if kind == 'T5':  # liquidate() at step 1, open position otherwise until the end
        sl = ctx.real('sl', 50, 200)
        ctx.constrain(sl < 99.9 if long else sl > 100.1)
        return S.make_template(side=side, entry=None, stop=sl, take=None, qty=1.0, name='T5', liquidate_at=1)
    if kind == 'T0':  # no exits: position open at session end (_terminate closes it)
        pe = ctx.real('pe', 50, 200)
        return S.make_template(side=side, entry=pe, stop=None, take=None, qty=1.0, name='T0', cancel_entry=False)
    if kind == 'T8f':  # wrong-side oversize stop: jesse replaces it by a non-reduce-only market order -> flip
        p2 = ctx.real('p2', 50, 200)
        sl = ctx.real('sl', 50, 200)
        ctx.constrain(And(p2 < 99.9, sl > 100.1) if long else And(p2 > 100.1, sl < 99.9))
        return S.make_template(side=side, entry=[(1.0, 100.0), (1.0, p2)], stop=[(2.0, sl)], qty=2.0, name='T8f', cancel_entry=False)
    raise ValueError(kind)


def h_session(ctx, n=3, kind='T1', side='long', leverage=2, symfee=True, sym_from=1):
    rows = S.minute_rows(ctx, n, sym_from=sym_from)
    T = _template(ctx, kind, side)
    fee = ctx.real('fee', 0, 0.01) if symfee else 0.001
    w0 = 10000.0
    cfg = S.config_dict('futures', leverage=leverage, fee=fee, balance=w0)
    rec = S.run_session(S.make_candles(rows), T, cfg)
    trade_obligations(ctx, rec, (fee, leverage, w0))


def h_relaxed_close(ctx, side='long', steps=2):
    """binary64 side of the position size (decimal quantities that are not exactly representable): a position of Q is opened and
    reduced by quantities whose DECIMAL total is Q; quantities are relaxed floats (every plain arithmetic operation exact*(1+d),
    |d| <= 2^-53; jesse's decimal helpers exact).  The cycle must close: size exactly 0, position closed, exactly one trade."""
    from .apih import ApiSession
    cfg = S.config_dict('futures', leverage=2, fee=0.0, balance=1e9)
    api = ApiSession(cfg, symbols=(S.SYMBOL,), price0=100.0)
    p = api.positions[S.SYMBOL]
    qs = [sx.relax(ctx.real('q%d' % i, 0.001, 100)) for i in range(steps)]
    Q = sx.relax(ctx.real('Q', 0.001, 1000))
    if sx.is_sym(Q):
        total = sx.real_term(qs[0])
        for q in qs[1:]:
            total = total + sx.real_term(q)
        ctx.constrain(sx.SymReal(sx.real_term(Q)) == sx.SymReal(total))
    else:
        from decimal import Decimal
        ctx.constrain(Q == float(sum(Decimal(str(q)) for q in qs)))  # the decimal total, as a user would type it
    opening, closing = ('buy', 'sell') if side == 'long' else ('sell', 'buy')
    o = api.submit(S.SYMBOL, opening, 'MARKET', Q, 100.0, False)
    o.execute()
    for q in qs:
        api.tick()
        r = api.submit(S.SYMBOL, closing, 'MARKET', q, 100.0, True)
        r.execute()
    ctx.prove(p.qty == 0, 'C06:position-size-is-zero-after-fills-that-net-to-zero(binary64)', {'side': side, 'steps': steps})
    ctx.prove(bool(p.is_close), 'C06:cycle-closes-after-fills-that-net-to-zero(binary64)', {'side': side, 'steps': steps})
    ctx.prove(len(api.store.completed_trades.trades) == 1, 'C06:cycle-closes-after-fills-that-net-to-zero(binary64)', {'side': side, 'trades': len(api.store.completed_trades.trades)})
    ctx.event('relaxed-cycle')


_DECIMALS = [0.1, 0.2, 0.3, 0.7, 0.8, 0.062, 0.937, 1.1, 2.2, 0.01, 0.05, 0.35, 4.35, 0.57]


def _binary64_witnesses(steps):
    from decimal import Decimal
    import itertools
    for qs in itertools.product(_DECIMALS, repeat=steps):
        m = {'q%d' % i: q for i, q in enumerate(qs)}
        m['Q'] = float(sum(Decimal(str(q)) for q in qs))
        yield m


JOBFN = {'h_session': h_session, 'h_relaxed_close': h_relaxed_close}


def _jobs(tier):
    jobs = []

    def add(**kw):
        jobs.append(Job('sess_' + '_'.join(str(v) for v in kw.values()), h_session, kw,
                        {'max_decisions': 4000, 'nlsat_fallback': True, 'prove_timeout_ms': 20000}))
    if tier == 'quick':
        add(n=3, kind='T1', side='long')
        add(n=3, kind='T3', side='short')
        add(n=3, kind='T3o', side='long')
        add(n=3, kind='T0', side='short')
        add(n=3, kind='T8f', side='long')
        add(n=3, kind='T2', side='short', sym_from=2)
        add(n=3, kind='T3u', side='short', sym_from=2)
        add(n=3, kind='T3u', side='long', sym_from=2)
        add(n=3, kind='T9', side='long')
    else:
        pass
    for side in ('long', 'short'):
        for steps in ((2,) if tier == 'quick' else (2, 3)):
            jobs.append(Job('relaxed_%s_%d' % (side, steps), h_relaxed_close, {'side': side, 'steps': steps}, {'nlsat_fallback': True, 'prove_timeout_ms': 20000}))
    if tier != 'quick':
        for side in ('long', 'short'):
            for kind in ('T1', 'T2', 'T3', 'T3u', 'T3o', 'T5', 'T0', 'T8f', 'T9'):
                add(n=3, kind=kind, side=side)
        add(n=4, kind='T1', side='long', leverage=10)
        add(n=4, kind='T3', side='long', leverage=5)
    return jobs


def setup(tier, seed):
    from ..engine import jstubs
    jstubs.install_core()
    S.install_monitors()
    jobs = _jobs(tier)
    return {
        'jobs': jobs,
        'budget_s': 780 if tier == 'quick' else 3300,
        'explanation': 'symbolic sessions through the real simulator/Strategy/Position/ClosedTrades; the observed fills of each path are folded '
                       'through the average-cost model of C03, giving the expected hook per fill, the expected position size, and the expected closed '
                       'trade of each open..close cycle; z3 proves hook sequence/arguments, every ClosedTrade field (side, qty, qty-weighted entry and '
                       'exit over effective fills, times, order list) and, in futures, sum(trade.pnl) == wallet change.',
        'bounds': {'templates': sorted({j.kwargs['kind'] for j in jobs if 'kind' in j.kwargs}), 'candles': '1 concrete + 2 (3) symbolic', 'fee': 'symbolic in [0,0.01]', 'quantities': 'concrete'},
        'outside': ['symbolic quantities', 'spot sessions (cash-account trade log)', 'more than one symbol', 'float rounding'],
        'stubs': list(jstubs.INSTALLED),
        'assumptions': ['floats as reals; weighted prices compared cross-multiplied; wallet identity within 1e-9 of the starting balance'],
        'must_reach': ['closed-trade', 'effect-open', 'effect-close', 'effect-reduce', 'effect-increase', 'effect-flip',
                       'C06:net-pnl-of-trades-equals-wallet-change', 'C06:fill-reported-once-through-matching-hook', 'cycle-closed-by-oversize-exit'],
    }


def signature(v):
    info = v.get('info') or {}
    sig = v['label']
    if info.get('path_has_oversize_exit'):
        sig += '|history-with-oversize-reduce-only-exit'
    if info.get('path_has_flip'):
        sig += '|history-with-position-flip'
    return sig


def make_witness(v):
    fn = 'h_relaxed_close' if v['job'].startswith('relaxed_') else 'h_session'
    return {'fn': fn, 'kwargs': v['bounds'], 'label': v['label'], 'model': v['model'], 'info': v.get('info')}


def replay(w):
    S.install_monitors()
    ok, msg = replay_harness(JOBFN[w['fn']], w['kwargs'], w['model'], w['label'])
    if ok or w['fn'] != 'h_relaxed_close':
        return ok, msg
    # a violation of the relaxed-float model leaves the rounding errors free: look for decimal quantities whose real binary64
    # rounding realises it before it is reported
    n = 0
    for cand in _binary64_witnesses(int(w['kwargs'].get('steps', 2))):
        n += 1
        ok2, msg2 = replay_harness(JOBFN[w['fn']], w['kwargs'], cand, w['label'])
        if ok2:
            return True, 'binary64 witness %r: %s' % (cand, msg2)
    return False, msg + ' (and no binary64 witness among %d decimal candidates)' % n
