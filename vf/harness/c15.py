"""C15 - indicators match their definitions, ranges and orderings (H-IND, differential against textbook references)."""
import math

import numpy as np

from ..engine import symex as sx
from ..engine.explore import Job
from ..engine.concrete import replay_harness
from . import session as S
from . import indh
from .common import And, Or, Not, Implies, close_to

ID = 'C15'
NAN = float('nan')

# ---- textbook references over plain python lists (proxies or floats) ----------------------------------------------


def _src(rows, source_type='close'):
    col = {'open': 1, 'close': 2, 'high': 3, 'low': 4, 'volume': 5}
    if source_type in col:
        return [r[col[source_type]] for r in rows]
    if source_type == 'hl2':
        return [(r[3] + r[4]) / 2 for r in rows]
    if source_type == 'hlc3':
        return [(r[3] + r[4] + r[2]) / 3 for r in rows]
    return [(r[1] + r[3] + r[4] + r[2]) / 4 for r in rows]


def _mean(xs):
    t = 0.0
    for x in xs:
        t = t + x
    return t / len(xs)


def _max(xs):
    r = xs[0]
    for x in xs[1:]:
        r = sx.smax(r, x) if (sx.is_sym(r) or sx.is_sym(x)) else max(r, x)
    return r


def _min(xs):
    r = xs[0]
    for x in xs[1:]:
        r = sx.smin(r, x) if (sx.is_sym(r) or sx.is_sym(x)) else min(r, x)
    return r


def _abs(x):
    return sx.sabs(x) if sx.is_sym(x) else abs(x)


def ref_sma(x, p):
    return [NAN if i < p - 1 else _mean(x[i - p + 1:i + 1]) for i in range(len(x))]


def ref_ema(x, p):
    out = [NAN] * len(x)
    if len(x) < p:
        return out
    a = 2 / (p + 1)
    prev = _mean(x[:p])
    out[p - 1] = prev
    for i in range(p, len(x)):
        prev = a * x[i] + (1 - a) * prev
        out[i] = prev
    return out


def ref_ema_first(x, p):
    """EMA recurrence seeded with the first value"""
    a = 2.0 / (p + 1)
    out = [x[0]]
    for i in range(1, len(x)):
        out.append(a * x[i] + (1 - a) * out[-1])
    return out


def ref_wma(x, p):
    w = list(range(1, p + 1))
    den = sum(w)
    out = []
    for i in range(len(x)):
        if i < p - 1:
            out.append(NAN)
        else:
            t = 0.0
            for k in range(p):
                t = t + w[k] * x[i - p + 1 + k]
            out.append(t / den)
    return out


def ref_stddev(x, p, nbdev=1):
    out = []
    for i in range(len(x)):
        if i < p - 1:
            out.append(NAN)
            continue
        win = x[i - p + 1:i + 1]
        m = _mean(win)
        v = _mean([(e - m) * (e - m) for e in win])
        out.append(('sqrt', v, nbdev))
    return out


def ref_var(x, p, nbdev=1):
    out = []
    for i in range(len(x)):
        if i < p - 1:
            out.append(NAN)
            continue
        win = x[i - p + 1:i + 1]
        m = _mean(win)
        out.append(_mean([(e - m) * (e - m) for e in win]) * nbdev)
    return out


def ref_rsi(x, p):
    n = len(x)
    out = [NAN] * n
    if n < p + 1:
        return out
    d = [x[i + 1] - x[i] for i in range(n - 1)]
    gains = [sx.ite(e > 0, e, 0.0) if sx.is_sym(e) else (e if e > 0 else 0.0) for e in d]
    losses = [sx.ite(e > 0, 0.0, -e) if sx.is_sym(e) else (0.0 if e > 0 else -e) for e in d]
    ag, al = _mean(gains[:p]), _mean(losses[:p])
    out[p] = ('rsi', ag, al)
    for i in range(p, n - 1):
        ag = (ag * (p - 1) + gains[i]) / p
        al = (al * (p - 1) + losses[i]) / p
        out[i + 1] = ('rsi', ag, al)
    return out


def true_range(rows):
    tr = [rows[0][3] - rows[0][4]]
    for i in range(1, len(rows)):
        h, l, pc = rows[i][3], rows[i][4], rows[i - 1][2]
        tr.append(_max([h - l, _abs(h - pc), _abs(l - pc)]))
    return tr


def ref_roc(x, p):
    return [NAN if i < p else (x[i] - x[i - p]) / x[i - p] * 100 for i in range(len(x))]


def ref_mom(x, p):
    return [NAN if i < p else x[i] - x[i - p] for i in range(len(x))]


def ref_willr(rows, p):
    out = []
    for i in range(len(rows)):
        if i < p - 1:
            out.append(NAN)
            continue
        hh = _max([r[3] for r in rows[i - p + 1:i + 1]])
        ll = _min([r[4] for r in rows[i - p + 1:i + 1]])
        out.append(('willr', hh, ll, rows[i][2]))
    return out


def ref_obv(rows):
    out = [rows[0][5]]
    for i in range(1, len(rows)):
        c, pc, v = rows[i][2], rows[i - 1][2], rows[i][5]
        step = sx.ite(c > pc, v, sx.ite(c < pc, -v, 0.0)) if (sx.is_sym(c) or sx.is_sym(pc)) else (v if c > pc else (-v if c < pc else 0.0))
        out.append(out[-1] + step)
    return out


def ref_donchian(rows, p):
    up, lo = [], []
    for i in range(len(rows)):
        if i < p - 1:
            up.append(NAN)
            lo.append(NAN)
        else:
            up.append(_max([r[3] for r in rows[i - p + 1:i + 1]]))
            lo.append(_min([r[4] for r in rows[i - p + 1:i + 1]]))
    return up, lo


# ---- comparison helpers ---------------------------------------------------------------------------------------------------
TOL = 1e-6  # absolute; prices are in [50,200]: implementations fold constants like 1/period in binary64 (DESIGN 2.7 rule 4)


def _is_inf(x):
    return (not sx.is_sym(x)) and isinstance(x, (float, np.floating)) and x in (math.inf, -math.inf)


def near(a, b, tol=TOL):
    if _is_inf(a) or _is_inf(b):
        # a division by a zero input (e.g. roc on a zero volume): both sides must be the same infinity
        return _is_inf(a) and _is_inf(b) and a == b
    d = a - b
    if sx.is_sym(d):
        return And(d <= tol, d >= -tol)
    return abs(d) <= tol



def cmp_series(ctx, got, ref, label, info):
    if not ctx.prove(hasattr(got, '__len__') and len(got) == len(ref), label + ':length', info):
        return
    for i, (g, r) in enumerate(zip(got, ref)):
        inf = dict(info, i=i)
        if isinstance(r, tuple):
            if indh.is_nan(g):
                ctx.prove(False, label, dict(inf, kind='nan where a value is defined'))
                continue
            if r[0] == 'sqrt':  # g == sqrt(v)*nbdev  <=>  g >= 0 and g^2 == v*nbdev^2
                ctx.prove(And(g * r[2] >= 0, near(g * g, r[1] * r[2] * r[2], 1e-4)), label, inf)
            elif r[0] == 'rsi':  # 100 - 100/(1+ag/al), 100 when al == 0   <=>  g*(ag+al) == 100*ag  (al>0)  /  g == 100 (al == 0)
                ag, al = r[1], r[2]
                ctx.prove(And(Implies(al == 0, near(g, 100)), Implies(Not(al == 0), near(g * (ag + al), 100 * ag, 1e-4))), label, inf)
            elif r[0] == 'willr':  # (hh - c)/(hh - ll) * -100
                hh, ll, c = r[1], r[2], r[3]
                ctx.prove(Implies(Not(hh == ll), near(g * (hh - ll), -100 * (hh - c), 1e-4)), label, inf)
            continue
        ok, cond = indh.same_value(ctx, g, r)
        if not ok:
            ctx.prove(False, label, dict(inf, kind='nan-pattern'))
        elif cond is not True:
            ctx.prove(near(g, r), label, inf)
    ctx.event('reference-compared')


def _call(name, m, **kw):
    import jesse.indicators as ta
    return getattr(ta, name)(m, sequential=True, **kw)


def _single(ctx, name, m, ref_last, label, info, field=None, **kw):
    """the single (sequential=False) value against the last entry of the reference series"""
    import jesse.indicators as ta
    v = getattr(ta, name)(m, sequential=False, **kw)
    if field is not None:
        v = getattr(v, field)
    inf = dict(info, single=True, field=field)
    if isinstance(ref_last, tuple):
        return  # references given through an identity (sqrt, rsi, willr) are compared on the series only
    ok, cond = indh.same_value(ctx, v, ref_last)
    if not ok:
        ctx.prove(False, label, dict(inf, kind='nan-pattern'))
    elif cond is not True:
        ctx.prove(near(v, ref_last), label, inf)
    ctx.event('single-value-compared')


# ---- harnesses ---------------------------------------------------------------------------------------------------------------


def h_ref(ctx, name='sma', n=7, period=3, source_type='close'):
    rows, m = indh.sym_matrix(ctx, n)
    x = _src(rows, source_type)
    info = {'indicator': name, 'period': period, 'source': source_type}
    lab = 'C15:equals-textbook-definition'
    if name == 'sma':
        cmp_series(ctx, _call('sma', m, period=period, source_type=source_type), ref_sma(x, period), lab, info)
        _single(ctx, 'sma', m, ref_sma(x, period)[-1], lab, info, period=period, source_type=source_type)
    elif name == 'ema':
        cmp_series(ctx, _call('ema', m, period=period, source_type=source_type), ref_ema(x, period), lab, info)
        _single(ctx, 'ema', m, ref_ema(x, period)[-1], lab, info, period=period, source_type=source_type)
    elif name == 'wma':
        cmp_series(ctx, _call('wma', m, period=period, source_type=source_type), ref_wma(x, period), lab, info)
        _single(ctx, 'wma', m, ref_wma(x, period)[-1], lab, info, period=period, source_type=source_type)
    elif name == 'stddev':
        cmp_series(ctx, _call('stddev', m, period=period, source_type=source_type), ref_stddev(x, period), lab, info)
    elif name == 'var':
        cmp_series(ctx, _call('var', m, period=period, source_type=source_type), ref_var(x, period), lab, info)
    elif name == 'rsi':
        cmp_series(ctx, _call('rsi', m, period=period, source_type=source_type), ref_rsi(x, period), lab, info)
    elif name == 'roc':
        cmp_series(ctx, _call('roc', m, period=period, source_type=source_type), ref_roc(x, period), lab, info)
        _single(ctx, 'roc', m, ref_roc(x, period)[-1], lab, info, period=period, source_type=source_type)
    elif name == 'mom':
        cmp_series(ctx, _call('mom', m, period=period, source_type=source_type), ref_mom(x, period), lab, info)
        _single(ctx, 'mom', m, ref_mom(x, period)[-1], lab, info, period=period, source_type=source_type)
    elif name == 'willr':
        cmp_series(ctx, _call('willr', m, period=period), ref_willr(rows, period), lab, info)
    elif name == 'obv':
        got = _call('obv', m)
        ref = ref_obv(rows)
        # OBV is defined up to its starting constant: compare increments
        if ctx.prove(len(got) == n, lab + ':length', info):
            for i in range(1, n):
                ctx.prove(near(got[i] - got[i - 1], ref[i] - ref[i - 1]), lab, dict(info, i=i))
            ctx.event('reference-compared')
    elif name == 'trange':
        got = _call('trange', m)
        ref = true_range(rows)
        if ctx.prove(len(got) == n, lab + ':length', info):
            for i in range(1, n):
                ok, cond = indh.same_value(ctx, got[i], ref[i])
                ctx.prove(near(got[i], ref[i]) if (ok and cond is not True) else ok, lab, dict(info, i=i))
            ctx.event('reference-compared')
    elif name == 'donchian':
        r = _call('donchian', m, period=period)
        up, lo = ref_donchian(rows, period)
        cmp_series(ctx, r.upperband, up, lab, dict(info, field='upperband'))
        cmp_series(ctx, r.lowerband, lo, lab, dict(info, field='lowerband'))
        cmp_series(ctx, r.middleband, [NAN if indh.is_nan(a) else (a + b) / 2 for a, b in zip(up, lo)], lab, dict(info, field='middleband'))
        _single(ctx, 'donchian', m, up[-1], lab, info, field='upperband', period=period)
        _single(ctx, 'donchian', m, lo[-1], lab, info, field='lowerband', period=period)
        _single(ctx, 'donchian', m, NAN if indh.is_nan(up[-1]) else (up[-1] + lo[-1]) / 2, lab, info, field='middleband', period=period)
    elif name == 'macd':
        fast, slow, sig = period, period + 1, 2
        r = _call('macd', m, fast_period=fast, slow_period=slow, signal_period=sig, source_type=source_type)
        # the implementation seeds both EMAs with the first value (reported); with that seed the recurrences give the value everywhere
        ef, es = ref_ema_first(x, fast), ref_ema_first(x, slow)
        line = [a - b for a, b in zip(ef, es)]
        ctx.event('macd-ema-seed-is-first-value')
        got = r.macd
        if ctx.prove(len(got) == n, lab + ':length', info):
            for i in range(n):
                if indh.is_nan(got[i]):
                    ctx.prove(False, lab, dict(info, i=i, kind='nan-pattern', field='macd'))
                else:
                    ctx.prove(near(got[i], line[i]), lab, dict(info, i=i, field='macd'))
            a_s = 2.0 / (sig + 1)
            for i in range(1, n):
                ctx.prove(near(r.signal[i], a_s * r.macd[i] + (1 - a_s) * r.signal[i - 1]), 'C15:recurrence-step', dict(info, i=i, field='signal'))
            hist_ok = And(*[near(r.hist[i], r.macd[i] - r.signal[i]) for i in range(n) if not (indh.is_nan(r.hist[i]) or indh.is_nan(r.macd[i]) or indh.is_nan(r.signal[i]))])
            ctx.prove(hist_ok, 'C15:macd-histogram-is-macd-minus-signal', info)
            ctx.event('reference-compared')
    elif name in ('typprice', 'medprice', 'wclprice', 'avgprice'):
        got = _call(name, m)
        f = {'typprice': lambda r: (r[3] + r[4] + r[2]) / 3, 'medprice': lambda r: (r[3] + r[4]) / 2,
             'wclprice': lambda r: (r[3] + r[4] + 2 * r[2]) / 4, 'avgprice': lambda r: (r[1] + r[3] + r[4] + r[2]) / 4}[name]
        cmp_series(ctx, got, [f(r) for r in rows], lab, info)
    elif name == 'bollinger_bands':
        r = _call('bollinger_bands', m, period=period, devup=2, devdn=2, source_type=source_type)
        mid = ref_sma(x, period)
        sd = ref_stddev(x, period)
        cmp_series(ctx, r.middleband, mid, lab, dict(info, field='middleband'))
        if ctx.prove(len(r.upperband) == n, lab + ':length', info):
            for i in range(period - 1, n):
                w = (r.upperband[i] - r.middleband[i]) / 2
                v = sd[i][1]
                ctx.prove(And(w >= 0, near(w * w, v, 1e-4), near(r.middleband[i] - r.lowerband[i], r.upperband[i] - r.middleband[i])), lab, dict(info, i=i, field='bands'))
            ctx.event('reference-compared')
    elif name == 'atr':
        got = _call('atr', m, period=period)
        tr = true_range(rows)
        # Wilder recurrence step past the seed: atr[i] = (atr[i-1]*(p-1) + tr[i]) / p ; the seed actually used is reported
        if ctx.prove(len(got) == n, lab + ':length', info):
            first = next((i for i in range(n) if not indh.is_nan(got[i])), None)
            ctx.event('atr-first-defined-at-%s' % first)
            for i in range((first or 0) + 1, n):
                ctx.prove(near(got[i] * period, got[i - 1] * (period - 1) + tr[i]), 'C15:recurrence-step', dict(info, i=i))
            ctx.event('reference-compared')
    elif name == 'mfi':
        got = _call('mfi', m, period=period)
        tp = [(r[3] + r[4] + r[2]) / 3 for r in rows]
        raw = [tp[i] * rows[i][5] for i in range(n)]
        if ctx.prove(len(got) == n, lab + ':length', info):
            for i in range(period, n):  # from `period` on the window holds `period` real price changes
                pos = 0.0
                neg = 0.0
                for j in range(i - period + 1, i + 1):
                    up = tp[j] > tp[j - 1]
                    dn = tp[j] < tp[j - 1]
                    pos = pos + sx.ite(up, raw[j], 0.0)
                    neg = neg + sx.ite(dn, raw[j], 0.0)
                g = got[i]
                if indh.is_nan(g):
                    ctx.prove(Not(pos + neg > 0), lab, dict(info, i=i, kind='nan where a value is defined'))
                else:
                    # 100 - 100/(1 + pos/neg)  <=>  g*(pos+neg) == 100*pos   (neg == 0: 100)
                    ctx.prove(Implies(neg > 0, near(g * (pos + neg), 100 * pos, 1e-3)), lab, dict(info, i=i))
            ctx.event('reference-compared')
    elif name in ('smma', 'wilders'):
        got = _call(name, m, period=period, source_type=source_type)
        if ctx.prove(len(got) == n, lab + ':length', info):
            first = next((i for i in range(n) if not indh.is_nan(got[i])), None)
            for i in range((first or 0) + 1, n):
                ctx.prove(near(got[i] * period, got[i - 1] * (period - 1) + x[i]), 'C15:recurrence-step', dict(info, i=i))
            ctx.event('reference-compared')
    else:
        raise ValueError(name)


MA_TYPES = {0: 'sma', 1: 'ema', 2: 'wma', 3: 'dema', 4: 'tema', 5: 'trima', 6: 'kama', 9: 'fwma', 10: 'hma', 11: 'linearreg', 12: 'wilders',
            13: 'sinwma', 14: 'supersmoother', 15: 'supersmoother_3_pole', 16: 'gauss', 17: 'high_pass', 18: 'high_pass_2_pole', 20: 'jma',
            21: 'reflex', 22: 'trendflex', 23: 'smma', 25: 'pwma', 26: 'swma', 27: 'alma', 30: 'nma', 31: 'edcf'}


def h_ma(ctx, matype=0, n=7, period=3):
    """the generic selector returns exactly what the selected moving average returns for the same arguments"""
    import jesse.indicators as ta
    rows, m = indh.sym_matrix(ctx, n)
    name = MA_TYPES[matype]
    try:
        a = ta.ma(m, period=period, matype=matype, source_type='close', sequential=True)
        b = getattr(ta, name)(m, period, source_type='close', sequential=True)
    except ZeroDivisionError:
        ctx.event('input-outside-domain-division-by-zero')
        return
    if ctx.prove(len(a) == len(b), 'C15:ma-selector-equals-selected-average:length', {'matype': matype, 'name': name}):
        for i in range(len(a)):
            ok, cond = indh.same_value(ctx, a[i], b[i])
            if not ok:
                ctx.prove(False, 'C15:ma-selector-equals-selected-average', {'matype': matype, 'name': name, 'i': i, 'kind': 'nan-pattern'})
            elif cond is not True:
                ctx.prove(cond, 'C15:ma-selector-equals-selected-average', {'matype': matype, 'name': name, 'i': i})
    ctx.event('ma-selector-compared')


def h_range(ctx, name='rsi', n=6, period=3):
    """bounded oscillators stay in range, bands are ordered, channels enclose the price, volatility is non-negative"""
    rows, m = indh.sym_matrix(ctx, n)
    info = {'indicator': name, 'period': period}

    def each(arr, f, label):
        for i, v in enumerate(arr):
            if indh.is_nan(v) or v is None:
                continue
            ctx.prove(f(i, v), label, dict(info, i=i))
        ctx.event('range-checked')
    if name in ('rsi',):
        each(_call('rsi', m, period=period), lambda i, v: And(v >= 0, v <= 100), 'C15:oscillator-inside-its-range')
    elif name == 'willr':
        each(_call('willr', m, period=period), lambda i, v: And(v >= -100, v <= 0), 'C15:oscillator-inside-its-range')
    elif name == 'mfi':
        each(_call('mfi', m, period=period), lambda i, v: And(v >= 0, v <= 100), 'C15:oscillator-inside-its-range')
    elif name == 'stochf':
        r = _call('stochf', m, fastk_period=period, fastd_period=2)
        each(r.k, lambda i, v: And(v >= 0, v <= 100), 'C15:oscillator-inside-its-range')
        each(r.d, lambda i, v: And(v >= 0, v <= 100), 'C15:oscillator-inside-its-range')
    elif name == 'stoch':
        r = _call('stoch', m, fastk_period=period, slowk_period=2, slowd_period=2)
        each(r.k, lambda i, v: And(v >= 0, v <= 100), 'C15:oscillator-inside-its-range')
        each(r.d, lambda i, v: And(v >= 0, v <= 100), 'C15:oscillator-inside-its-range')
    elif name in ('bollinger_bands', 'keltner', 'donchian'):
        r = _call(name, m, period=period)
        for i in range(n):
            u, mid, lo = r.upperband[i], r.middleband[i], r.lowerband[i]
            if indh.is_nan(u) or indh.is_nan(mid) or indh.is_nan(lo):
                continue
            ctx.prove(And(u >= mid, mid >= lo), 'C15:bands-ordered-upper-middle-lower', dict(info, i=i))
            if name == 'donchian':
                ctx.prove(And(u >= rows[i][3], lo <= rows[i][4]), 'C15:channel-encloses-the-price', dict(info, i=i))
        ctx.event('range-checked')
    elif name in ('atr', 'stddev', 'var', 'trange'):
        kw = {} if name == 'trange' else {'period': period}
        each(_call(name, m, **kw), lambda i, v: v >= 0, 'C15:volatility-measure-non-negative')
    else:
        raise ValueError(name)


def h_homog(ctx, name='sma', n=6, period=3):
    """price-homogeneous averages scale linearly with the price"""
    rows, m = indh.sym_matrix(ctx, n)
    lam = ctx.real('lambda', 0.001, 1000)
    rows2 = [[r[0], r[1] * lam, r[2] * lam, r[3] * lam, r[4] * lam, r[5]] for r in rows]
    m2 = S.make_candles(rows2)
    a = _call(name, m, period=period)
    b = _call(name, m2, period=period)
    for i in range(n):
        if indh.is_nan(a[i]) or indh.is_nan(b[i]):
            ctx.prove(indh.is_nan(a[i]) and indh.is_nan(b[i]), 'C15:average-scales-linearly-with-price', {'indicator': name, 'i': i, 'kind': 'nan-pattern'})
            continue
        ctx.prove(near(b[i], lam * a[i], 1e-6 * 1000), 'C15:average-scales-linearly-with-price', {'indicator': name, 'i': i})
    ctx.event('homogeneity-checked')


def h_invariant(ctx, name='cci', n=4, period=2):
    """dimensionless oscillators do not change when every price is multiplied by the same factor, from tiny to huge prices"""
    rows, m = indh.sym_matrix(ctx, n)
    lam = ctx.real('lambda', 1e-10, 1e8)
    rows2 = [[r[0], r[1] * lam, r[2] * lam, r[3] * lam, r[4] * lam, r[5]] for r in rows]
    from ..engine.npshim import ObjArr
    m2 = S.make_candles(rows2)
    m2 = m2.view(ObjArr) if m2.dtype == object else m2
    a = _call(name, m, period=period)
    b = _call(name, m2, period=period)
    for i in range(n):
        if indh.is_nan(a[i]) or indh.is_nan(b[i]):
            ctx.prove(indh.is_nan(a[i]) and indh.is_nan(b[i]), 'C15:oscillator-is-scale-invariant', {'indicator': name, 'i': i, 'kind': 'nan-pattern'})
            continue
        ctx.prove(near(b[i], a[i], 1e-6), 'C15:oscillator-is-scale-invariant', {'indicator': name, 'i': i})
    ctx.event('invariance-checked')


JOBFN = {'h_ref': h_ref, 'h_ma': h_ma, 'h_range': h_range, 'h_homog': h_homog, 'h_invariant': h_invariant}


def _jobs(tier):
    jobs = []
    opts = {'max_paths': 1500 if tier == 'quick' else 20000, 'max_job_seconds': 120 if tier == 'quick' else 1200, 'max_decisions': 4000, 'stop_on_error': True,
            'max_path_seconds': 60, 'prove_timeout_ms': 20000, 'feas_timeout_ms': 5000, 'nlsat_fallback': True}
    refs = ['sma', 'ema', 'wma', 'stddev', 'var', 'rsi', 'roc', 'mom', 'willr', 'obv', 'trange', 'donchian', 'macd', 'typprice', 'medprice', 'wclprice',
            'avgprice', 'bollinger_bands', 'atr', 'smma', 'wilders', 'mfi']
    periods = (2, 3) if tier == 'quick' else (2, 3, 4, 5)
    for nm in refs:
        for p in periods:
            if nm in ('obv', 'trange', 'typprice', 'medprice', 'wclprice', 'avgprice') and p != periods[0]:
                continue
            jobs.append(Job('ref_%s_p%d' % (nm, p), h_ref, {'name': nm, 'n': 6 if tier == 'quick' else 8, 'period': p}, dict(opts)))
    if tier != 'quick':
        for src in ('high', 'low', 'open', 'volume', 'hl2', 'hlc3', 'ohlc4'):
            for nm in ('sma', 'ema', 'wma', 'stddev', 'rsi', 'roc'):
                jobs.append(Job('ref_%s_p3_%s' % (nm, src), h_ref, {'name': nm, 'n': 7, 'period': 3, 'source_type': src}, dict(opts)))
        # linear, split-free indicators on long series with long periods (terms stay linear)
        for p in (10, 30, 60):
            for nm in ('sma', 'ema', 'wma', 'mom'):
                jobs.append(Job('ref_%s_p%d_n64' % (nm, p), h_ref, {'name': nm, 'n': 64, 'period': p}, dict(opts)))
    for mt in sorted(MA_TYPES):
        jobs.append(Job('ma_%d_%s' % (mt, MA_TYPES[mt]), h_ma, {'matype': mt, 'n': 6, 'period': 3}, dict(opts)))
    for nm in ('rsi', 'willr', 'mfi', 'stochf', 'stoch', 'bollinger_bands', 'keltner', 'donchian', 'atr', 'stddev', 'var', 'trange'):
        jobs.append(Job('range_%s' % nm, h_range, {'name': nm, 'n': 5 if tier == 'quick' else 7, 'period': 2 if tier == 'quick' else 3}, dict(opts)))
    for nm in ('sma', 'ema', 'wma', 'dema', 'tema', 'trima', 'smma', 'wilders', 'zlema', 'hma'):
        jobs.append(Job('homog_%s' % nm, h_homog, {'name': nm, 'n': 6, 'period': 2}, dict(opts)))
    for nm in ('cci', 'rsi', 'willr', 'cmo', 'mfi'):
        jobs.append(Job('invariant_%s' % nm, h_invariant, {'name': nm, 'n': 4, 'period': 2}, dict(opts)))
    return jobs


def setup(tier, seed):
    from ..engine import jstubs
    indh.install()
    jobs = _jobs(tier)
    return {
        'jobs': jobs,
        'tolerant_jobs': True,
        'min_encoded': 40,
        'budget_s': 780 if tier == 'quick' else 3300,
        'explanation': 'differential check: the real indicator and a short textbook reference run on the same symbolic candles; z3 proves equality at every '
                       'position where the value is a function of a trailing window (sma, wma, stddev/var via the squared identity, roc, mom, willr, '
                       'donchian, price transforms, bollinger, ema/rsi/macd with the textbook SMA seed) and the recurrence step for Wilder-type smoothers '
                       '(atr, smma, wilders; the seed actually used is reported); ma(matype=m) equals the selected average for every matype; ranges, band '
                       'ordering, channel enclosure, non-negativity and homogeneity f(lambda*c) = lambda*f(c) with symbolic lambda are proved on the '
                       'real implementation\'s terms.',
        'bounds': {'candles': '5-8 (64 for linear indicators in thorough)', 'periods': '2-3 quick, 2-5 and 10/30/60 (linear ones) thorough'},
        'outside': ['periods above 5 for splitting indicators', 'cci / adx family / mfi references (ranges only)', 'value equality of recursive smoothers after seed decay (floating-point statement)',
                    'indicators listed under not_encoded'],
        'stubs': list(jstubs.INSTALLED),
        'assumptions': ['floats as reals; sqrt handled through its defining identity'],
        'must_reach': ['reference-compared', 'ma-selector-compared', 'range-checked', 'homogeneity-checked'],
    }


def signature(v):
    info = v.get('info') or {}
    return '%s|%s' % (v['label'], info.get('indicator', info.get('name', '')))


def make_witness(v):
    fn = {'ref': 'h_ref', 'ma': 'h_ma', 'range': 'h_range', 'homog': 'h_homog', 'invariant': 'h_invariant'}[v['job'].split('_')[0]]
    return {'fn': fn, 'kwargs': v['bounds'], 'label': v['label'], 'model': v['model'], 'info': v.get('info')}


def replay(w):
    return replay_harness(JOBFN[w['fn']], w['kwargs'], w['model'], w['label'])
