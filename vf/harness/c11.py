"""C11 - research.backtest is a pure, repeatable function of its arguments (H-2RUN: probe, other session, probe).

Every path runs in a freshly forked process that has never run a session (pristine process-global state): probe B0, then
session A (symbolic fee/balance, enumerated structure, possibly aborting), then probe B1 with arguments equal to B0's.
B1 must be observably equal to B0 and the arguments must be unmodified.  The harness does NOT clear helpers.CACHED_CONFIG
between sessions - leaks through it are what the property is about.
"""
import copy

import numpy as np

from ..engine import symex as sx
from ..engine.explore import Job
from ..engine.concrete import replay_harness
from . import session as S
from .common import And, Or, Not, Implies, close_to

ID = 'C11'


class Abort(Exception):
    pass


def probe_candles(n=6):
    prices = [100.0, 100.0, 101.0, 103.0, 106.0, 104.0, 102.0, 101.0][:n]
    rows = []
    prev = prices[0]
    for i, p in enumerate(prices):
        o = prev + 0.25 if i == 3 else prev  # minute 3 opens away from the previous close (the simulators normalise such a gap in their copy)
        rows.append([S.T0 + i * S.MIN, o, p, max(o, p) + 0.5, min(o, p) - 0.5, 10.0])
        prev = p
    return rows


def reading(T):
    """every session's strategy also uses the documented cross-route scratch space (shared_vars) and a non-sequential indicator
    (whose input is cut by helpers.slice_candles according to the session's warm-up configuration), and records what it saw"""
    base = T.before

    def before(self):
        base(self)
        import jesse.indicators as ta
        import jesse.helpers as jh
        seen = self.shared_vars.get('steps-seen', 0)
        self.shared_vars['steps-seen'] = seen + 1
        v = ta.sma(self.candles, 4)
        rec = S.REC
        if rec is not None:
            rec.hooks[-1][2]['reads'] = (self.index, seen, None if v != v else float(v), len(jh.slice_candles(self.candles, False)))
    T.before = before
    return T


def observe(rec):
    fills = []
    for (kind, t, pl) in rec.events:
        if kind == 'fill':
            od = pl['order']
            fills.append((od.side, od.type, od.qty, od.price, t))
    trades = []
    for t in rec.refs.get('trades', []):
        trades.append({'type': t.type, 'qty': t.qty, 'entry': t.entry_price, 'exit': t.exit_price, 'pnl': t.pnl, 'fee': t.fee,
                       'opened_at': t.opened_at, 'closed_at': t.closed_at})
    ex = rec.refs.get('exchange_obj')
    reads = [pl['reads'] for (t, h, pl) in rec.hooks if h == 'before' and 'reads' in pl]
    return {'reads': reads, 'fills': fills, 'trades': trades, 'assets': dict(ex.assets) if ex is not None else None,
            'exchange_type': type(ex).__name__ if ex is not None else None, 'n_orders': len(rec.orders),
            'leverage': getattr(ex, 'futures_leverage', None), 'mode': getattr(ex, 'futures_leverage_mode', None),
            'result_keys': sorted(rec.result.keys()) if getattr(rec, 'result', None) else None}


def run_probe(fee, bal, exch_type='futures', name=S.EXCHANGE, fast=False):
    T = S.make_template(side='long', entry=None, stop=95.0, take=105.0, qty=1.0, on_open_exits=(exch_type == 'spot'),
                        exit_qty_from_position=(exch_type == 'spot'), name='Probe')
    T = reading(T)
    # the probe declares two hyperparameters and is called with a partial dict (a documented use: the rest come from the defaults)
    T.hyperparameters = lambda self: [{'name': 'unit', 'type': int, 'min': 1, 'max': 5, 'default': 1},
                                      {'name': 'hold', 'type': int, 'min': 1, 'max': 9, 'default': 9}]
    hp = {'unit': 1}
    hp_copy = copy.deepcopy(hp)
    cfg = S.config_dict(exch_type, leverage=2, mode='cross', fee=fee, balance=bal, exchange=name)
    candles = S.make_candles(probe_candles())
    routes_before = None
    cfg_copy = copy.deepcopy(cfg)
    candles_copy = candles.copy()
    rec = S.run_session(candles, T, cfg, fresh_process_state=False, fast=fast, hyperparameters=hp)
    untouched = (cfg == cfg_copy) and candles.shape == candles_copy.shape and bool(np.all(candles == candles_copy)) and hp == hp_copy
    return rec, untouched


def run_a(ctx, variant):
    feeA = ctx.real('feeA', 0, 0.01)
    balA = ctx.real('balA', 500, 100000)
    v = dict(exch_type='futures', name=S.EXCHANGE, symbol=S.SYMBOL, tf='1m', data=[], leverage=5, mode='isolated', warm=0, fast=False,
             abort_at=None, poor=False, abort_hook='before', two_entries=False)
    v.update(variant)
    step = {'n': 0}

    def hooks_abort(s, order=None):
        pass
    entry = None
    if v['two_entries']:
        entry = [(1.0, 100.0), (100000.0, 100.0)]  # the second row cannot be afforded: InsufficientMargin after the first was queued
    T = S.make_template(side='long', entry=entry, stop=90.0, take=104.0, qty=1.0, on_open_exits=(v['exch_type'] == 'spot'),
                        exit_qty_from_position=(v['exch_type'] == 'spot'), name='A')
    T = reading(T)
    if v['abort_at'] is not None:
        hook = v['abort_hook']
        base = getattr(T, hook)

        def aborting(self):
            base(self)
            if self.index == v['abort_at']:
                raise Abort('strategy hook failed')
        setattr(T, hook, aborting)
    if v['poor']:
        balA = ctx.real('balA_poor', 1, 40)  # cannot afford qty 1 at 100 with leverage 2 -> InsufficientMargin at the first step
    cfg = S.config_dict(v['exch_type'], leverage=v['leverage'], mode=v['mode'], fee=feeA, balance=balA, exchange=v['name'], warm_up=v['warm'])
    rows = probe_candles(6 if v['tf'] == '1m' else 6)
    warmup = None
    if v['warm']:
        wr = [S.flat_row(S.T0 - (v['warm'] - i) * S.MIN, 100.0) for i in range(v['warm'])]
        warmup = {'%s-%s' % (v['name'], v['symbol']): {'exchange': v['name'], 'symbol': v['symbol'], 'candles': S.make_candles(wr)}}
    from jesse import exceptions
    rec = S.run_session(S.make_candles(rows), T, cfg, timeframe=v['tf'], data_routes=[(v['symbol'], d) for d in v['data']], symbol=v['symbol'],
                        warmup=warmup, fast=v['fast'], fresh_process_state=False,
                        catch=(Abort, exceptions.InsufficientMargin, exceptions.InsufficientBalance))
    return rec


def _ser(x):
    if isinstance(x, (sx.SymReal, sx.SymInt)):
        return ('sym', type(x).__name__, x.t.serialize())
    if isinstance(x, (np.floating, np.integer)):
        return ('num', float(x))
    if isinstance(x, (list, tuple)):
        return ('seq', [_ser(v) for v in x])
    if isinstance(x, dict):
        return ('map', {k: _ser(v) for k, v in x.items()})
    return ('raw', x)


def _de(x):
    import z3
    k = x[0]
    if k == 'sym':
        t = z3.deserialize(x[2])
        return sx.SymReal(t) if x[1] == 'SymReal' else sx.SymInt(t)
    if k == 'num':
        return x[1]
    if k == 'seq':
        return [_de(v) for v in x[1]]
    if k == 'map':
        return {kk: _de(v) for kk, v in x[1].items()}
    return x[1]


def fresh_process_probe(ctx, feeB, balB, probe_type, probe_fast):
    """the probe call in a fresh process: a forked child of this (still pristine) process runs it and sends back its observables.
    The probe is built so that no decision depends on its symbols (checked), so the child explores its single path."""
    import os
    import pickle
    if getattr(ctx, 'concrete', False):
        # concrete replay: a real fresh interpreter is started by the runner for the whole witness; fork here as well
        pass
    r_fd, w_fd = os.pipe()
    pid = os.fork()
    if pid == 0:
        code = 0
        try:
            os.close(r_fd)
            n_before = len(getattr(ctx, 'new_prefixes', []))
            b0, un0 = run_probe(feeB, balB, probe_type, fast=probe_fast)
            o0 = observe(b0)
            forked = len(getattr(ctx, 'new_prefixes', [])) - n_before
            data = pickle.dumps({'obs': _ser(o0), 'untouched': un0, 'forked': forked})
            with os.fdopen(w_fd, 'wb') as f:
                f.write(data)
        except BaseException as e:
            try:
                with os.fdopen(w_fd, 'wb') as f:
                    f.write(pickle.dumps({'error': repr(e)}))
            except BaseException:
                code = 1
        finally:
            os._exit(code)
    os.close(w_fd)
    with os.fdopen(r_fd, 'rb') as f:
        data = f.read()
    os.waitpid(pid, 0)
    d = pickle.loads(data)
    if 'error' in d:
        raise RuntimeError('fresh-process probe failed: ' + d['error'])
    if d['forked']:
        raise RuntimeError('the probe session branches on its own symbols; the harness expects a single-path probe')
    return _de(d['obs']), d['untouched']


def h_abb(ctx, variant=None, probe_type='futures', probe_fast=False, twice=False):
    feeB = ctx.real('feeB', 0.0001, 0.01)
    balB = ctx.real('balB', 2000, 100000)
    o0, un0 = fresh_process_probe(ctx, feeB, balB, probe_type, probe_fast)
    ra = run_a(ctx, variant or {})
    ctx.event('A-aborted' if ra.exc is not None else 'A-completed')
    if ra.exc is None and 'trades' in ra.refs:
        observe(ra)  # the user looks at A's results (trade.fee etc.) as the report of a normal backtest does
    b1, un1 = run_probe(feeB, balB, probe_type, fast=probe_fast)
    o1 = observe(b1)
    compare(ctx, o0, o1, 'after-A')
    ctx.prove(un0 and un1, 'C11:arguments-unmodified')
    if twice:
        b2, un2 = run_probe(feeB, balB, probe_type, fast=probe_fast)
        compare(ctx, o0, observe(b2), 'second-repeat')
    ctx.event('probe-compared')


def compare(ctx, a, b, tag):
    flags = {'when': tag}
    ctx.prove(a['exchange_type'] == b['exchange_type'] and a['leverage'] == b['leverage'] and a['mode'] == b['mode'],
              'C11:same-account-type-and-leverage', dict(flags, fresh=(a['exchange_type'], a['leverage'], a['mode']), later=(b['exchange_type'], b['leverage'], b['mode'])))
    ctx.prove([list(x) for x in a['reads']] == [list(x) for x in b['reads']], 'C11:same-values-read-by-the-strategy',
              dict(flags, what='(index, shared_vars counter, sma(4), candles given to a non-sequential indicator)', fresh=a['reads'], later=b['reads']))
    ok = ctx.prove(len(a['fills']) == len(b['fills']) and a['n_orders'] == b['n_orders'], 'C11:same-number-of-orders-and-fills',
                   dict(flags, fresh=len(a['fills']), later=len(b['fills'])))
    if ok:
        for x, y in zip(a['fills'], b['fills']):
            ctx.prove(x[0] == y[0] and x[1] == y[1] and x[4] == y[4], 'C11:same-fill-structure', flags)
            ctx.prove(And(ctx.equal(x[2], y[2]), ctx.equal(x[3], y[3])), 'C11:same-fill-values', flags)
    if ctx.prove(len(a['trades']) == len(b['trades']), 'C11:same-number-of-trades', dict(flags, fresh=len(a['trades']), later=len(b['trades']))):
        for x, y in zip(a['trades'], b['trades']):
            ctx.prove(x['type'] == y['type'] and x['opened_at'] == y['opened_at'] and x['closed_at'] == y['closed_at'], 'C11:same-trade-structure', flags)
            ctx.prove(And(*[ctx.equal(x[k], y[k]) for k in ('qty', 'entry', 'exit')]), 'C11:same-trade-values', flags)
            ctx.prove(And(ctx.equal(x['pnl'], y['pnl']), ctx.equal(x['fee'], y['fee'])), 'C11:same-trade-pnl-and-fee', flags)
            ctx.event('trade-compared')
    if a['assets'] is not None and b['assets'] is not None:
        ctx.prove(sorted(a['assets']) == sorted(b['assets']) and bool(And(*[ctx.equal(a['assets'][k], b['assets'][k]) for k in a['assets'] if k in b['assets']]))
                  if not any(sx.is_sym(ctx.equal(a['assets'][k], b['assets'].get(k))) for k in a['assets']) else
                  And(sorted(a['assets']) == sorted(b['assets']), *[ctx.equal(a['assets'][k], b['assets'][k]) for k in a['assets'] if k in b['assets']]),
                  'C11:same-final-balances', flags)


JOBFN = {'h_abb': h_abb}

VARIANTS = {
    'same': {},
    'other_fee_leverage': {'leverage': 10, 'mode': 'cross'},
    'spot_same_name': {'exch_type': 'spot'},
    'other_exchange': {'name': 'Other Exchange'},
    'other_symbol_tf': {'symbol': 'ETH-USDT', 'tf': '3m', 'data': ['3m']},
    'warmup_fast': {'warm': 3, 'fast': True},
    'warmup': {'warm': 3},
    'abort_step0': {'abort_at': 0},
    'abort_step2': {'abort_at': 2},
    'insufficient_margin': {'poor': True},
    'spot_other_exchange_abort': {'exch_type': 'spot', 'name': 'Spot Ex', 'abort_at': 1},
    'abort_after_entry': {'abort_at': 0, 'abort_hook': 'after'},
    'other_exchange_abort': {'name': 'Other Exchange', 'abort_at': 2},
    'second_entry_rejected': {'two_entries': True},
}


def _jobs(tier):
    jobs = []

    def add(vn, **kw):
        jobs.append(Job('abb_%s_%s' % (vn, '_'.join(str(x) for x in kw.values())), h_abb, dict(variant=VARIANTS[vn], **kw),
                        {'fork_per_path': True, 'max_decisions': 4000}))
    names = list(VARIANTS) if tier != 'quick' else ['same', 'other_fee_leverage', 'spot_same_name', 'other_exchange', 'warmup', 'abort_step2', 'insufficient_margin', 'abort_after_entry', 'second_entry_rejected', 'other_exchange_abort']
    for vn in names:
        add(vn, probe_type='futures')
    add('same', probe_type='spot')
    add('same', probe_type='futures', probe_fast=True)
    if tier != 'quick':
        for vn in names:
            add(vn, probe_type='spot')
        add('other_fee_leverage', probe_type='futures', probe_fast=True)
        add('abort_step2', probe_type='futures', probe_fast=True, twice=True)
    return jobs


def setup(tier, seed):
    from ..engine import jstubs
    jstubs.install_core()
    S.install_monitors()
    jobs = _jobs(tier)
    return {
        'jobs': jobs,
        'budget_s': 780 if tier == 'quick' else 2400,
        'explanation': 'every path runs in a freshly forked process that never ran a session: probe B0 (symbolic fee/balance), then session A with '
                       'independent symbolic fee/balance and an enumerated structure (other exchange name, spot instead of futures, other leverage/'
                       'mode, other symbol/timeframe/data route, warm-up, fast mode, abort by an exception in a hook or by InsufficientMargin), then '
                       'probe B1 with equal arguments; z3 proves fills, trades (incl. pnl and fee), account type and final balances of B1 equal to '
                       'B0 - i.e. free of A\'s symbols - and the argument objects unmodified. No state is cleared between the sessions by the harness.',
        'bounds': {'variants': [j.name for j in jobs], 'sessions': '6 concrete candles per session; account parameters symbolic'},
        'outside': ['leaks that need more than one prior session', 'longer sessions', 'result["metrics"] (computed in C16; _generate_outputs is stubbed here)'],
        'stubs': list(jstubs.INSTALLED),
        'assumptions': ['floats as reals', 'a fresh process is modelled by a forked child of a process that has imported jesse but never run a session'],
        'must_reach': ['probe-compared', 'trade-compared', 'A-aborted', 'A-completed', 'C11:arguments-unmodified'],
    }


def signature(v):
    b = v.get('bounds', {})
    var = b.get('variant') or {}
    sig = v['label']
    tags = []
    if var.get('name', S.EXCHANGE) != S.EXCHANGE:
        tags.append('earlier-session-on-another-exchange-name')
    if var.get('exch_type', 'futures') != b.get('probe_type', 'futures'):
        tags.append('earlier-session-other-account-type')
    if var.get('abort_at') is not None or var.get('poor') or var.get('two_entries'):
        tags.append('earlier-session-aborted')
    return sig + ''.join('|' + t for t in tags)


def make_witness(v):
    return {'fn': 'h_abb', 'kwargs': v['bounds'], 'label': v['label'], 'model': v['model'], 'info': v.get('info')}


def replay(w):
    S.install_monitors()
    return replay_harness(JOBFN[w['fn']], w['kwargs'], w['model'], w['label'])
