"""C17 - sizing and numeric helpers never overspend, over-risk or round up.

Three encodings of the same real functions (DESIGN C17):
  reals      - SYMEX proxies (exact rationals): algebraic clauses (cost incl. fees, risk, one step below the quotient, ...)
  relaxed    - every floating-point operation result = exact*(1+d), |d| <= 2^-53 (sound over-approximation of binary64 in
               the stated ranges): used to PROVE the no-overspend clause for fee >= 1e-5
  exact      - binary64 (QF_FP) terms built by running the real function on FP proxies: used to FIND witnesses (thorough tier);
               stored witnesses of known findings are replayed on the real functions in every tier
"""
import builtins
import json
import math
import os
import re
import subprocess
import time

import numpy as np
import z3

from ..engine import symex as sx
from ..engine.explore import Job
from ..engine.concrete import replay_harness, ConcreteCtx
from . import session as S
from .common import And, Or, Not, Implies

ID = 'C17'
EPS = 2.0 ** -53
ROOT = os.path.dirname(os.path.dirname(os.path.dirname(os.path.abspath(__file__))))

# ---------------------------------------------------------------------------------------------------------------
# relaxed floating point proxy


class RelaxReal(sx.SymReal):
    __slots__ = ()
    counter = [0]

    def _bin(self, o, op, swapped=False):
        r = sx.SymReal._bin(self, o, op, swapped)
        if isinstance(r, sx.SymReal):
            RelaxReal.counter[0] += 1
            d = z3.Real('delta!%d' % RelaxReal.counter[0])
            c = sx.cur()
            c.solver.add(d >= -sx._q(EPS), d <= sx._q(EPS))
            c.model = None
            return RelaxReal(r.t * (1 + d), r.npf)
        return r

    def _extra(self):
        return (self.npf,)


class _RelaxMath:
    def __getattr__(self, n):
        return getattr(math, n)

    @staticmethod
    def floor(x):
        if isinstance(x, RelaxReal):
            return RelaxReal(z3.ToReal(z3.ToInt(x.t)), x.npf)  # floor is exact; the next operation rounds again
        if sx.is_sym(x):
            return sx.sym_floor(x)
        return math.floor(x)

    @staticmethod
    def isnan(x):
        return False if sx.is_sym(x) else math.isnan(x)


# ---------------------------------------------------------------------------------------------------------------
# harnesses


def _floor_step(p):
    return 1.0 / (10 ** p)


def near_step(v, d):
    """v is the minimum unit 10^-d (as the code writes it: a double constant, so within 1e-9 relative of the exact step)"""
    t = v * (10 ** d) - 1
    return And(t <= 1e-9, t >= -1e-9)


def h_size_reals(ctx, precision=3, zero_fee=False):
    """size_to_qty over reals: cost including fees <= capital; at most one precision step below the exact quotient"""
    from jesse import utils
    cap = ctx.real('capital', 1e-6, 1e6)
    price = ctx.real('price', 1e-6, 1e6)
    fee = 0 if zero_fee else ctx.real('fee', 0.00001, 0.01)
    q = utils.size_to_qty(cap, price, precision=precision, fee_rate=fee)
    ctx.prove(q * price * (1 + fee) <= cap, 'C17:size_to_qty-cost-including-fees-within-capital', {'model': 'reals', 'precision': precision})
    exact = (cap * (1 - fee * 3) if not zero_fee else cap) / price
    # the step 10^-p is written with the integer 10^p: the double 1e-6 (or 1e-7) is slightly BELOW the exact step, which the exact-reals
    # model can tell apart (a counterexample that no float run reproduces)
    ctx.prove(And(q <= exact, (exact - q) * (10 ** precision) < 1), 'C17:size_to_qty-at-most-one-step-below-quotient', {'precision': precision})
    ctx.prove(q >= 0, 'C17:size_to_qty-non-negative')
    ctx.event('size-reals')


def h_risk_reals(ctx, precision=3, zero_fee=True):
    """risk_to_qty / risk_to_size over reals: never risks more than the requested percentage; never costs more than capital"""
    from jesse import utils
    cap = ctx.real('capital', 1e-6, 1e6)
    entry = ctx.real('entry', 1e-6, 1e6)
    stop = ctx.real('stop', 1e-6, 1e6)
    risk = ctx.real('risk', 0.000001, 100)
    ctx.constrain(Not(entry == stop))
    fee = 0 if zero_fee else ctx.real('fee', 0.00001, 0.01)
    q = utils.risk_to_qty(cap, risk, entry, stop, precision=precision, fee_rate=fee)
    rpq = sx.sabs(entry - stop)
    ctx.prove(q * rpq <= cap * (risk / 100), 'C17:risk_to_qty-risks-at-most-the-requested-percentage', {'precision': precision})
    ctx.prove(q * entry * (1 + fee) <= cap, 'C17:risk_to_qty-cost-including-fees-within-capital', {'precision': precision})
    size = utils.risk_to_size(cap, risk, rpq, entry)
    ctx.prove(And(size <= cap, size >= 0), 'C17:risk_to_size-within-capital')
    ctx.event('risk-reals')


def h_accept(ctx, exch='futures', precision=3, zero_fee=False):
    """an order for the computed quantity at that price is accepted by a fresh account holding the capital (reals)"""
    from jesse import utils
    from jesse.exceptions import InsufficientMargin, InsufficientBalance
    from .apih import ApiSession
    cap = ctx.real('capital', 1, 1e6)
    price = ctx.real('price', 1e-3, 1e6)
    fee = 0 if zero_fee else ctx.real('fee', 0.00001, 0.01)
    q = utils.size_to_qty(cap, price, precision=precision, fee_rate=fee)
    ctx.assume(q > 0)
    cfg = S.config_dict(exch, leverage=1, fee=fee, balance=cap)
    api = ApiSession(cfg, symbols=(S.SYMBOL,), price0=100.0)
    api.set_price(S.SYMBOL, price)
    try:
        api.submit(S.SYMBOL, 'buy', 'LIMIT', q, price, False)
        ok = True
    except (InsufficientMargin, InsufficientBalance):
        ok = False
    ctx.prove(ok, 'C17:order-for-computed-qty-accepted-by-fresh-account', {'exchange': exch})
    ctx.event('accept-' + exch)


def h_size_relaxed(ctx, precision=3):
    """binary64 relaxed model: fl(qty*price) <= capital for every fee rate >= 1e-5"""
    from jesse import utils
    cap = RelaxReal(ctx.real('capital', 1e-6, 1e6).t)
    price = RelaxReal(ctx.real('price', 1e-6, 1e6).t)
    fee = RelaxReal(ctx.real('fee', 0.00001, 0.01).t)
    q = utils.size_to_qty(cap, price, precision=precision, fee_rate=fee)
    cost = q * price  # one more rounded multiplication, as the exchange computes it
    ctx.prove(cost <= cap, 'C17:size_to_qty-binary64-cost-within-capital(fee>=1e-5)', {'model': 'relaxed binary64', 'precision': precision})
    ctx.event('size-relaxed')


def h_misc_reals(ctx, decimals=2):
    """limit_stop_loss never widens the risk; round_decimals_down / round_qty_for_live_mode never above the input (reals);
    decimal helpers add and subtract (bodies)"""
    from jesse import utils
    import jesse.helpers as jh
    entry = ctx.real('entry', 1e-6, 1e6)
    stop = ctx.real('stop', 1e-6, 1e6)
    pct = ctx.real('pct', 0, 100)
    for tt in ('long', 'short'):
        ns = utils.limit_stop_loss(entry, stop, tt, pct)
        ctx.prove(sx.sabs(entry - ns) <= sx.sabs(entry - stop), 'C17:limit_stop_loss-never-widens-risk', {'type': tt})
        ctx.prove(sx.sabs(entry - ns) <= entry * (pct / 100), 'C17:limit_stop_loss-within-max-risk', {'type': tt})
    ctx.prove(utils.estimate_risk(entry, stop) == sx.sabs(entry - stop), 'C17:estimate_risk-is-distance')
    x = ctx.real('x', 0, 1e6)
    r = jh.round_decimals_down(x, decimals)
    # steps written with integer powers of ten (the double 10.0**-d is not the exact step)
    below_step = (lambda v: v * (10 ** decimals) < 1) if decimals >= 0 else (lambda v: v < 10 ** (-decimals))
    ctx.prove(And(r <= x, below_step(x - r)), 'C17:round_decimals_down-never-above-input', {'decimals': decimals, 'model': 'reals'})
    if decimals >= 0:
        rq = jh.round_qty_for_live_mode(np.array([x], dtype=object), decimals)[0]
        ctx.prove(Or(rq <= x, And(near_step(rq, decimals), below_step(x))), 'C17:round_qty_for_live_mode-never-rounds-up-except-minimum-unit', {'decimals': decimals})
    a = ctx.real('a', -1e6, 1e6)
    b = ctx.real('b', -1e6, 1e6)
    ctx.prove(And(utils.sum_floats(a, b) == a + b, utils.subtract_floats(a, b) == a - b), 'C17:decimal-helpers-add-and-subtract')
    ctx.event('misc-reals')


TF_MIN = {'m': 1, 'h': 60, 'D': 1440, 'W': 10080, 'M': 43200}


def tf_minutes(tf):
    m = re.match(r'^(\d+)([mhDWM])$', tf)
    return int(m.group(1)) * TF_MIN[m.group(2)]


class SymSet:
    """a list of timeframes with symbolic membership"""

    def __init__(self, members):
        self.members = members

    def __contains__(self, x):
        return self.members.get(x, False)

    def __iter__(self):
        raise TypeError('symbolic set is not iterable')


def h_max_timeframe(ctx):
    import jesse.helpers as jh
    from jesse.enums import timeframes
    all_tfs = [getattr(timeframes, a) for a in dir(timeframes) if not a.startswith('_')]
    mem = {tf: ctx.bool('in_' + tf) for tf in all_tfs}
    ctx.constrain(mem['1m'])
    r = jh.max_timeframe(SymSet(mem))
    ctx.prove(r in mem, 'C17:max_timeframe-returns-a-timeframe')
    ctx.prove(mem[r], 'C17:max_timeframe-returns-a-member', {'result': r})
    bigger = [tf for tf in all_tfs if tf_minutes(tf) > tf_minutes(r)]
    ctx.prove(And(*[Not(mem[tf]) for tf in bigger]) if bigger else True, 'C17:max_timeframe-returns-the-longest-member',
              {'result': r, 'longer': bigger})
    ctx.event('max-timeframe')


JOBFN = {'h_size_reals': h_size_reals, 'h_risk_reals': h_risk_reals, 'h_accept': h_accept, 'h_size_relaxed': h_size_relaxed,
         'h_misc_reals': h_misc_reals, 'h_max_timeframe': h_max_timeframe}


def _jobs(tier):
    jobs = []
    precs = (0, 3, 8) if tier == 'quick' else tuple(range(0, 9))
    for p in precs:
        for zf in (False, True):
            jobs.append(Job('size_reals_p%d_%s' % (p, 'fee0' if zf else 'fee'), h_size_reals, {'precision': p, 'zero_fee': zf}))
            jobs.append(Job('risk_reals_p%d_%s' % (p, 'fee0' if zf else 'fee'), h_risk_reals, {'precision': p, 'zero_fee': zf}))
        jobs.append(Job('size_relaxed_p%d' % p, h_size_relaxed, {'precision': p}))
    for ex in ('futures', 'spot'):
        for zf in (False, True):
            jobs.append(Job('accept_%s_%s' % (ex, 'fee0' if zf else 'fee'), h_accept, {'exch': ex, 'precision': 3, 'zero_fee': zf}))
    for d in ((0, 2, 8) if tier == 'quick' else (-2, 0, 1, 2, 3, 5, 8)):
        jobs.append(Job('misc_reals_d%d' % d, h_misc_reals, {'decimals': d}))
    jobs.append(Job('max_timeframe', h_max_timeframe, {}))
    for j in jobs:
        j.opts.update({'nlsat_fallback': True, 'prove_timeout_ms': 60000, 'max_path_seconds': 250})
    return jobs


def install():
    from ..engine import jstubs
    jstubs.install_core()
    jstubs.setattr_mod('jesse.utils', 'math', _RelaxMath(), 'math.floor/isnan pass proxies (floor exact)')
    jstubs.setattr_mod('jesse.helpers', 'math', _RelaxMath(), 'math.floor/isnan pass proxies (floor exact)')
    jstubs.setattr_mod('jesse.utils', 'Decimal', lambda x: x, 'Decimal(str(x)) is the exact value of x (assumption: shortest repr round-trips)')
    jstubs.setattr_mod('jesse.utils', 'str', lambda x: x if sx.is_sym(x) else builtins.str(x))
    jstubs.setattr_mod('jesse.utils', 'format', _pformat, 'format(x, "[.N]f") of a proxy is x rounded to N (default 6) decimals, "" / "r" the exact value')
    jstubs.setattr_mod('jesse.utils', 'repr', lambda x: x if sx.is_sym(x) else builtins.repr(x))
    jstubs.setattr_mod('jesse.utils', 'float', jstubs.pfloat)
    jstubs.setattr_mod('jesse.utils', 'abs', builtins.abs)
    jstubs.setattr_mod('jesse.helpers', 'isinstance', _isinstance, 'isinstance(x, int) accepts symbolic ints')


def _pformat(x, spec=''):
    """format() on a proxy, for the decimal-string round trip Decimal(<string of x>): the value the string denotes"""
    if not sx.is_sym(x):
        return builtins.format(x, spec)
    if spec in ('', 'r', 's'):
        return x
    m = re.match(r'^(?:\.(\d+))?f$', spec)
    if m:
        return sx.sym_round(x, int(m.group(1)) if m.group(1) is not None else 6)
    raise sx.Concretization('format(%r) of a symbolic value' % spec)


def _isinstance(x, t):
    return builtins.isinstance(x, t)


def setup(tier, seed):
    from ..engine import jstubs
    install()
    jobs = _jobs(tier)
    return {
        'jobs': jobs,
        'budget_s': 780 if tier == 'quick' else 3000,
        'explanation': 'the real utils.size_to_qty / risk_to_qty / risk_to_size / limit_stop_loss / sum_floats / subtract_floats and helpers.'
                       'floor_with_precision / round_decimals_down / round_qty_for_live_mode / max_timeframe are executed on proxies: (1) exact reals '
                       'for the algebraic clauses, incl. acceptance of the order by a fresh FuturesExchange/SpotExchange; (2) a sound relaxation of '
                       'binary64 (each operation exact*(1+d), |d|<=2^-53, floor exact) proving fl(qty*price)<=capital for fee>=1e-5; (3) binary64-exact '
                       'witnesses of the known 1-ulp findings are replayed on the real functions each run; the thorough tier searches new ones with a '
                       'QF_FP encoding (cvc5/z3). max_timeframe runs on a symbolic set (17 membership booleans); timeframe tables compared entry by entry.',
        'bounds': {'capital/price': '[1e-6, 1e6]', 'fee': '{0} U [1e-5, 0.01]', 'precision': list(precs_for(tier)), 'risk%': '(0,100]'},
        'outside': ['binary64 behaviour of risk_to_qty and of the fee=0 case beyond the stored/searched witnesses', 'values outside the stated ranges (overflow, subnormals)'],
        'stubs': list(jstubs.INSTALLED),
        'assumptions': ['relaxed model valid while every intermediate result is a normal double (true in the stated ranges)',
                        'Decimal(str(x)) taken as the exact value of x'],
        'must_reach': ['size-reals', 'risk-reals', 'size-relaxed', 'accept-futures', 'accept-spot', 'misc-reals', 'max-timeframe'],
    }


def precs_for(tier):
    return (0, 3, 8) if tier == 'quick' else tuple(range(0, 9))


# ---------------------------------------------------------------------------------------------------------------
# main-process extras: stored exact witnesses, timeframe tables, exact FP search (thorough)


def fp_witness_checks():
    """concrete binary64 checks on the real, unpatched functions (run in a subprocess: this process has stubs installed)"""
    code = r'''
import json, os, sys, warnings
warnings.filterwarnings('ignore')
sys.path.insert(0, os.environ.get('VF_REPO', '/repo'))
import numpy as np
from jesse import utils
import jesse.helpers as jh
out = []
for w in json.loads(sys.argv[1]):
    k = w['kind']
    if k == 'size_to_qty':
        q = utils.size_to_qty(w['size'], w['price'], precision=w['precision'], fee_rate=w.get('fee', 0))
        out.append({'kind': k, 'w': w, 'violates': bool(q * w['price'] > w['size']), 'qty': q, 'cost': q * w['price']})
    elif k == 'round_decimals_down':
        r = float(jh.round_decimals_down(np.array([w['x']]), w['decimals'])[0])
        r2 = jh.round_qty_for_live_mode(w['x'], w['decimals'])
        out.append({'kind': k, 'w': w, 'violates': bool(r > w['x']), 'result': r, 'round_qty_for_live_mode': r2})
    elif k == 'max_timeframe':
        r = jh.max_timeframe(w['list'])
        out.append({'kind': k, 'w': w, 'violates': r != w['expected'], 'result': r})
print(json.dumps(out))
'''
    return code


def run_real(witnesses):
    import sys
    p = subprocess.run([sys.executable, '-c', fp_witness_checks(), json.dumps(witnesses)], capture_output=True, text=True,
                       env=dict(os.environ, PYTHONPATH=os.environ.get('VF_REPO', '/repo')), timeout=300)
    if p.returncode != 0:
        raise RuntimeError('witness subprocess failed: ' + p.stderr[-800:])
    return json.loads(p.stdout.strip().splitlines()[-1])


def table_checks():
    """timeframe tables agree with the timeframe lengths (concrete, entry by entry)"""
    import jesse.helpers as jh
    from jesse import utils
    from jesse.enums import timeframes
    import jesse.modes.backtest_mode as bm
    bad = []
    n = 0
    all_tfs = [getattr(timeframes, a) for a in dir(timeframes) if not a.startswith('_')]
    for tf in all_tfs:
        n += 1
        exp = tf_minutes(tf)
        if utils.timeframe_to_one_minutes(tf) != exp:
            bad.append('utils.timeframe_to_one_minutes(%s)=%s expected %s' % (tf, utils.timeframe_to_one_minutes(tf), exp))
        if jh.timeframe_to_one_minutes(tf) != exp:
            bad.append('helpers.timeframe_to_one_minutes(%s)' % tf)
        if bm.timeframe_to_one_minutes.get(tf) != exp:
            bad.append('backtest_mode.timeframe_to_one_minutes[%s]=%s expected %s' % (tf, bm.timeframe_to_one_minutes.get(tf), exp))
    for tf in all_tfs:
        try:
            a = utils.anchor_timeframe(tf)
        except KeyError:
            continue
        n += 1
        if not (tf_minutes(a) > tf_minutes(tf) and tf_minutes(a) % tf_minutes(tf) == 0):
            bad.append('anchor_timeframe(%s)=%s is not a longer multiple' % (tf, a))
    return n, bad


STORED = [
    {'kind': 'size_to_qty', 'size': 222506.86682303532, 'price': 0.00016164371818117455, 'precision': 3, 'fee': 0,
     'signature': 'C17:size_to_qty-binary64-cost-within-capital(fee=0)'},
    {'kind': 'round_decimals_down', 'x': 918970.7999999999, 'decimals': 1, 'signature': 'C17:round_decimals_down-binary64-never-above-input'},
    {'kind': 'round_decimals_down', 'x': 7461.0869999999995, 'decimals': 3, 'signature': 'C17:round_decimals_down-binary64-never-above-input'},
]


def extra_checks(tier, seed):
    out = {'violations': [], 'harness_errors': [], 'obligations': 0, 'discharged': 0, 'report': [], 'samples': [], 'reached': {},
           'evaluations': 0, 'distinct_nontrivial': 0, 'summary': {}}
    n, bad = table_checks()
    out['obligations'] += n
    out['discharged'] += n - len(bad)
    out['reached']['timeframe-tables'] = n
    for b in bad:
        out['violations'].append({'label': 'C17:timeframe-tables-agree-with-lengths', 'model': {}, 'info': {'entry': b}, 'job': 'tables', 'bounds': {}})
    # stored binary64 witnesses of known findings, replayed on the real functions
    res = run_real(STORED)
    out['evaluations'] += len(res)
    for r in res:
        out['samples'].append(r)
        if r['violates']:
            out['violations'].append({'label': r['w']['signature'], 'model': r['w'], 'info': {'stored_witness': True}, 'job': 'stored', 'bounds': {}})
    out['summary']['stored_witnesses'] = res
    if tier == 'thorough':
        found = exact_search(out)
        out['summary']['exact_search'] = found
    return out


# ---- exact binary64 search (thorough) ---------------------------------------------------------------------------

FP = z3.Float64()
RNE = z3.RNE()


class FPNum:
    """binary64 proxy for the exact encoding (only what size_to_qty / floor_with_precision / round_decimals_down need)"""

    def __init__(self, t):
        self.t = t

    @staticmethod
    def lift(x):
        if isinstance(x, FPNum):
            return x.t
        return z3.FPVal(float(x), FP)

    def __mul__(self, o):
        return FPNum(z3.fpMul(RNE, self.t, FPNum.lift(o)))

    __rmul__ = __mul__

    def __truediv__(self, o):
        return FPNum(z3.fpDiv(RNE, self.t, FPNum.lift(o)))

    def __rtruediv__(self, o):
        return FPNum(z3.fpDiv(RNE, FPNum.lift(o), self.t))

    def __sub__(self, o):
        return FPNum(z3.fpSub(RNE, self.t, FPNum.lift(o)))

    def __rsub__(self, o):
        return FPNum(z3.fpSub(RNE, FPNum.lift(o), self.t))

    def __add__(self, o):
        return FPNum(z3.fpAdd(RNE, self.t, FPNum.lift(o)))

    __radd__ = __add__

    def __ne__(self, o):
        return True  # only used for `fee_rate != 0` with a symbolic positive fee

    def floor(self):
        return FPNum(z3.fpRoundToIntegral(z3.RTN(), self.t))


class _FPMath:
    def __getattr__(self, n):
        return getattr(math, n)

    @staticmethod
    def floor(x):
        return x.floor() if isinstance(x, FPNum) else math.floor(x)

    @staticmethod
    def isnan(x):
        return False if isinstance(x, FPNum) else math.isnan(x)


def _smt2_cvc5(s, timeout_s):
    """second solver: export the query and run the cvc5 binary"""
    path = os.path.join(ROOT, '.work')
    os.makedirs(path, exist_ok=True)
    f = os.path.join(path, 'c17_%d.smt2' % os.getpid())
    with open(f, 'w') as fh:
        fh.write('(set-logic QF_FP)\n(set-option :produce-models true)\n' + s.to_smt2().replace('(check-sat)', '(check-sat)\n(get-model)'))
    try:
        p = subprocess.run(['cvc5', '--tlimit=%d' % int(timeout_s * 1000), f], capture_output=True, text=True, timeout=timeout_s + 30)
        txt = p.stdout
    except (subprocess.TimeoutExpired, FileNotFoundError):
        txt = 'unknown'
    finally:
        try:
            os.remove(f)
        except OSError:
            pass
    return txt


def _parse_fp_model(txt):
    vals = {}
    for m in re.finditer(r'\(define-fun (\w+) \(\) \(_ FloatingPoint 11 53\) \(fp #b([01]) #b([01]{11}) #b([01]{52})\)', txt):
        bits = int(m.group(2) + m.group(3) + m.group(4), 2)
        import struct
        vals[m.group(1)] = struct.unpack('>d', struct.pack('>Q', bits))[0]
    return vals


def exact_search(out):
    """QF_FP search for binary64 witnesses by running the real functions on FPNum proxies"""
    import sys
    from jesse import utils
    import jesse.helpers as jh
    um, hm = sys.modules['jesse.utils'].math, sys.modules['jesse.helpers'].math
    sys.modules['jesse.utils'].math = _FPMath()
    sys.modules['jesse.helpers'].math = _FPMath()
    found = []
    try:
        budget = float(os.environ.get('VF_C17_FP_TIMEOUT', '150'))
        for prec in (0, 1, 2, 3):
            size = FPNum(z3.FP('size', FP))
            price = FPNum(z3.FP('price', FP))
            q = utils.size_to_qty(size, price, precision=prec, fee_rate=0)
            cost = q * price
            s = z3.Solver()
            for v in (size.t, price.t):
                s.add(z3.fpGEQ(v, z3.FPVal(1e-6, FP)), z3.fpLEQ(v, z3.FPVal(1e6, FP)))
            s.add(z3.fpGT(cost.t, size.t))
            t0 = time.time()
            txt = _smt2_cvc5(s, budget)
            el = time.time() - t0
            vals = _parse_fp_model(txt) if txt.lstrip().startswith('sat') else {}
            rec = {'query': 'size_to_qty fee=0 precision=%d: exists size,price in [1e-6,1e6] with fl(qty*price) > size' % prec,
                   'solver': 'cvc5 binary', 'answer': txt.strip().split('\n')[0][:20], 'seconds': round(el, 1), 'model': vals}
            if vals:
                w = {'kind': 'size_to_qty', 'size': vals['size'], 'price': vals['price'], 'precision': prec, 'fee': 0,
                     'signature': 'C17:size_to_qty-binary64-cost-within-capital(fee=0)'}
                r = run_real([w])[0]
                rec['replayed_on_real_function'] = r['violates']
                out['evaluations'] += 1
                if r['violates']:
                    out['violations'].append({'label': w['signature'], 'model': w, 'info': {'found_by': 'QF_FP search'}, 'job': 'exact', 'bounds': {}})
                else:
                    out['harness_errors'].append('QF_FP model did not replay: %r' % (w,))
            found.append(rec)
            out['report'].append('exact search: %s -> %s in %.0fs' % (rec['query'][:60], rec['answer'], el))
    finally:
        sys.modules['jesse.utils'].math = um
        sys.modules['jesse.helpers'].math = hm
    return found


def signature(v):
    return v['label']


def make_witness(v):
    if v.get('job') in ('stored', 'exact', 'tables'):
        return {'fn': 'real', 'witness': v['model'], 'label': v['label'], 'info': v.get('info')}
    fn = 'h_' + '_'.join(v['job'].split('_')[:2]) if not v['job'].startswith(('accept', 'max')) else \
        ('h_accept' if v['job'].startswith('accept') else 'h_max_timeframe')
    return {'fn': fn, 'kwargs': v['bounds'], 'label': v['label'], 'model': v['model'], 'info': v.get('info')}


def replay(w):
    if w['fn'] == 'real':
        if w['label'].startswith('C17:timeframe-tables'):
            n, bad = table_checks()
            return bool(bad), 'table mismatches: %s' % bad
        r = run_real([w['witness']])[0]
        return bool(r['violates']), 'real function on the stored binary64 witness: %r' % (r,)
    if w['fn'] == 'h_max_timeframe':
        # concrete list from the membership model
        import jesse.helpers as jh
        lst = [k[3:] for k, v in w['model'].items() if k.startswith('in_') and v]
        r = jh.max_timeframe(lst)
        longest = max(lst, key=tf_minutes)
        return r != longest, 'max_timeframe(%s) = %s, longest member is %s' % (lst, r, longest)
    return replay_harness(JOBFN[w['fn']], w['kwargs'], w['model'], w['label'])
