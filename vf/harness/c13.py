"""C13 - indicator series are causal: value i depends only on candles 0..i (H-IND)."""
import numpy as np

from ..engine import symex as sx
from ..engine.explore import Job
from ..engine.concrete import replay_harness
from . import session as S
from . import indh
from .common import And, Or, Not

ID = 'C13'
SOURCES = ['close', 'high', 'low', 'open', 'volume', 'hl2', 'hlc3', 'ohlc4']


def h_causal(ctx, name='sma', n=8, variant=0, source_type=None):
    kw, sig = indh.lowered_params(name, variant)
    if 'sequential' not in sig.parameters:
        ctx.event('no-sequential-parameter')
        return
    rows, m = indh.sym_matrix(ctx, n)
    two = any(p in sig.parameters for p in ('benchmark_candles', 'candles_compare'))
    m2 = None
    if two:
        _, m2 = indh.sym_matrix(ctx, n, name='b')
    try:
        full = indh.fields(indh.call(name, m, kw, sig, True, m2, source_type))
    except ZeroDivisionError:
        ctx.event('input-outside-domain-division-by-zero')  # the compiled kernel raises as well (numba python error model)
        return
    exempt = 0
    if name == 'minmax':
        exempt = kw.get('order', 3)  # documented: needs `order` confirming candles
    for fld, arr in full.items():
        if not (hasattr(arr, '__len__') and len(arr) == n):
            ctx.event('sequential-result-length-differs (checked by C14)')
    compared = 0
    for k in range(1, n):
        try:
            pre = indh.fields(indh.call(name, m[:k], kw, sig, True, None if m2 is None else m2[:k], source_type))
        except (ValueError, IndexError, ZeroDivisionError) as e:
            ctx.event('prefix-too-short-raises')
            continue
        for fld, arr in full.items():
            p = pre.get(fld)
            if p is None or not hasattr(p, '__len__') or not hasattr(arr, '__len__'):
                ctx.event('prefix-result-shape-differs')
                continue
            upto = min(k, len(p), len(arr)) - exempt
            for j in range(max(0, upto)):
                ok, cond = indh.same_value(ctx, arr[j], p[j])
                compared += 1
                if not ok:
                    ctx.prove(False, 'C13:prefix-equals-full-series', {'indicator': name, 'field': fld, 'k': k, 'j': j, 'kind': 'nan-pattern'})
                elif cond is not True:
                    ctx.prove(cond, 'C13:prefix-equals-full-series', {'indicator': name, 'field': fld, 'k': k, 'j': j},
                              witness=indh.clear_difference(arr[j], p[j]))
    ctx.event('indicator-compared')
    if compared:
        ctx.event('entries-compared', compared)


JOBFN = {'h_causal': h_causal}


def _jobs(tier):
    jobs = []
    names = indh.indicator_names()
    n = 7 if tier == 'quick' else 10
    cap = 300 if tier == 'quick' else 3000
    tcap = 20 if tier == 'quick' else 400
    for nm in names:
        jobs.append(Job('ind_%s' % nm, h_causal, {'name': nm, 'n': n, 'variant': 0},
                        {'max_paths': cap, 'max_job_seconds': tcap, 'max_decisions': 3000, 'stop_on_error': True, 'max_path_seconds': 10 if tier == 'quick' else 120, 'prove_timeout_ms': 3000, 'feas_timeout_ms': 2000}))
    # second parameter set (periods 3/4: the other parity); in the quick tier with a smaller path budget
    for nm in names:
        jobs.append(Job('ind_%s_v1' % nm, h_causal, {'name': nm, 'n': n, 'variant': 1},
                        {'max_paths': 100 if tier == 'quick' else cap, 'max_job_seconds': 10 if tier == 'quick' else tcap, 'max_decisions': 3000, 'stop_on_error': True,
                         'max_path_seconds': 10 if tier == 'quick' else 120, 'prove_timeout_ms': 3000 if tier == 'quick' else 20000, 'feas_timeout_ms': 2000 if tier == 'quick' else 5000}))
    if tier != 'quick':
        for src in ('high', 'volume', 'hl2', 'ohlc4'):
            for nm in ('sma', 'ema', 'wma', 'rsi', 'rma', 'stddev', 'dema', 'zlema', 'roc', 'mom'):
                jobs.append(Job('ind_%s_src_%s' % (nm, src), h_causal, {'name': nm, 'n': n, 'variant': 0, 'source_type': src},
                                {'max_paths': cap, 'stop_on_error': True, 'max_path_seconds': 120}))
    return jobs


def setup(tier, seed):
    from ..engine import jstubs
    indh.install()
    jobs = _jobs(tier)
    return {
        'jobs': jobs,
        'tolerant_jobs': True,
        'min_encoded': 60,
        'budget_s': 780 if tier == 'quick' else 2700,
        'explanation': 'every public indicator with a sequential parameter runs on n symbolic candles (OHLCV reals) through a numpy shim and the python '
                       'source of its numba kernels: f(candles, sequential=True) and f(candles[:k], sequential=True) for every k on the same path; for '
                       'every output field and j < k z3 proves full[j] == prefix[j] (NaN pattern compared concretely). Transcendental functions are '
                       'uninterpreted (sound for this property: equal arguments give equal values). Indicators that cannot run on proxies (scipy/'
                       'pandas C code, shim gaps) or exceed the per-indicator path budget are listed under not_encoded and are not claimed.',
        'bounds': {'candles': 7 if tier == 'quick' else 10, 'cpu_seconds_cap_per_indicator': 20 if tier == 'quick' else 400, 'periods': 'integer length parameters lowered to 2/3 (variant 1: 3/4)', 'path_cap_per_indicator': 300 if tier == 'quick' else 3000},
        'outside': ['default (long) periods', 'series longer than the bound', 'indicators listed under not_encoded', 'float rounding'],
        'stubs': list(jstubs.INSTALLED),
        'assumptions': ['floats as reals', 'numba compiles the kernels\' python source faithfully (replays run the compiled kernels)'],
        'must_reach': ['indicator-compared', 'C13:prefix-equals-full-series'],
    }


def signature(v):
    info = v.get('info') or {}
    return '%s|%s' % (v['label'], info.get('indicator', v.get('bounds', {}).get('name')))


def make_witness(v):
    return {'fn': 'h_causal', 'kwargs': v['bounds'], 'label': v['label'], 'model': v['model'], 'info': v.get('info')}


def replay(w):
    return replay_harness(JOBFN[w['fn']], w['kwargs'], w['model'], w['label'])
