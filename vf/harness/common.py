"""helpers shared by the harnesses"""
import numpy as np
import z3

from ..engine import symex as sx


def sym_candle(ctx, name, ts, lo=50, hi=200, volume=10.0, sym_volume=False, assume_valid=True):
    """object-dtype candle row [ts, open, close, high, low, volume] with symbolic OHLC (npf: values read out
    of a candle array are numpy float64 in a concrete run)"""
    o = ctx.real(name + '_o', lo, hi, npf=True)
    c = ctx.real(name + '_c', lo, hi, npf=True)
    h = ctx.real(name + '_h', lo, hi, npf=True)
    l = ctx.real(name + '_l', lo, hi, npf=True)
    v = ctx.real(name + '_v', 0, 1000, npf=True) if sym_volume else np.float64(volume)
    if assume_valid:
        ctx.constrain((l <= o) & (l <= c) & (o <= h) & (c <= h))
    row = np.empty(6, dtype=object)
    row[0] = ts
    row[1], row[2], row[3], row[4], row[5] = o, c, h, l, v
    return row


def candles_matrix(rows):
    m = np.empty((len(rows), 6), dtype=object)
    for i, r in enumerate(rows):
        for j in range(6):
            m[i, j] = r[j]
    return m


def concrete_candle_from_model(model, name, ts, volume=10.0):
    return [ts, model[name + '_o'], model[name + '_c'], model[name + '_h'], model[name + '_l'],
            model.get(name + '_v', volume)]


def lex_le(a, b):
    """(a0,a1) <= (b0,b1) lexicographically; a0,b0 concrete or symbolic ints, a1,b1 reals -> SymBool"""
    a0, a1 = a
    b0, b1 = b
    return (a0 < b0) | ((a0 == b0) & (a1 <= b1))


def And(*xs):
    r = True
    for x in xs:
        if isinstance(x, (bool, np.bool_)):
            if not x:
                return False
            continue
        r = x if r is True else (r & x)
    return r


def Or(*xs):
    r = False
    for x in xs:
        if isinstance(x, (bool, np.bool_)):
            if x:
                return True
            continue
        r = x if r is False else (r | x)
    return r


def Not(x):
    if isinstance(x, (bool, np.bool_)):
        return not x
    return ~x


def Implies(a, b):
    return Or(Not(a), b)


def close_to(a, b, scale, tol=1e-9):
    """|a-b| <= tol*scale as one (solver) condition; used where code and oracle legitimately fold binary64 constants
    differently (DESIGN 2.7 rule 4)"""
    from ..engine import symex as sx
    d = a - b
    if sx.is_sym(d) or sx.is_sym(scale):
        return sx.sabs(d) <= tol * scale if sx.is_sym(d) else abs(d) <= tol * scale
    return abs(d) <= tol * scale
