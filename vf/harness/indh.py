"""H-IND: run jesse indicators on dtype=object candle arrays holding proxies."""
import inspect
import sys

import numpy as np

from ..engine import symex as sx
from . import session as S
from .common import sym_candle, And, Or, Not

NOT_PERIOD = {'matype', 'devtype', 'mode', 'method', 'div', 'sensitivity', 'oblevel', 'oslevel', 'scalar', 'threshold', 'power',
              'FC', 'SC', 'fast_matype', 'slow_matype', 'slowk_matype', 'slowd_matype', 'fastd_matype', 'drift', 'poles', 'offset',
              'predict', 'vol_threshold', 'num_chunksize', 'min_chunksize', 'max_chunksize'}


def install():
    """np shim + python sources of numba kernels in every indicator module"""
    from ..engine import jstubs
    from ..engine.npshim import SHIM
    import jesse.indicators  # noqa
    jstubs.install_core()
    n_np = n_nb = 0
    for name, m in list(sys.modules.items()):
        if not name.startswith('jesse.indicators') or m is None:
            continue
        if hasattr(m, 'np') and getattr(m.np, '__name__', '') == 'numpy':
            m.np = SHIM
            n_np += 1
        if name.count('.') >= 2:
            m.float = jstubs.pfloat
        for attr, val in list(vars(m).items()):
            if hasattr(val, 'py_func') and callable(getattr(val, 'py_func', None)):
                setattr(m, attr, val.py_func)
                n_nb += 1
    jstubs.INSTALLED.append('np -> numpy shim in %d jesse.indicators modules' % n_np)
    jstubs.INSTALLED.append('%d numba dispatchers -> their python source (py_func)' % n_nb)
    jstubs.setattr_mod('jesse.helpers', 'CACHED_CONFIG', sys.modules['jesse.helpers'].CACHED_CONFIG)
    install_scipy_filters()


def _reflect_index(j, n):
    # scipy.ndimage 'reflect' boundary: (d c b a | a b c d | d c b a)
    period = 2 * n
    j = j % period
    return j if j < n else period - 1 - j


def _filter1d(kind):
    import scipy.ndimage as ndi
    real = getattr(ndi, kind + 'imum_filter1d')

    def f(a, size, axis=-1, output=None, mode='reflect', cval=0.0, origin=0):
        arr = np.asarray(a)
        if arr.dtype != object:
            return real(a, size, axis=axis, output=output, mode=mode, cval=cval, origin=origin)
        if arr.ndim != 1 or mode != 'reflect' or output is not None:
            raise NotImplementedError('%simum_filter1d on proxies: only 1-D input with reflect boundary' % kind)
        n = len(arr)
        lo = -(size // 2) - origin  # first offset of the window relative to the output position
        out = np.empty(n, dtype=object)
        for i in range(n):
            acc = None
            for k in range(size):
                v = arr[_reflect_index(i + lo + k, n)]
                if acc is None:
                    acc = v
                else:
                    acc = (sx.smax(acc, v) if kind == 'max' else sx.smin(acc, v)) if (sx.is_sym(acc) or sx.is_sym(v)) else (max(acc, v) if kind == 'max' else min(acc, v))
            out[i] = acc
        from ..engine.npshim import ObjArr
        return out.view(ObjArr)

    # self-check of the window placement against scipy on floats (every size/origin the shim may be asked for)
    rnd = np.random.RandomState(7)
    for size in (1, 2, 3, 4, 5, 6, 7):
        for origin in range(-(size // 2), (size - 1) // 2 + 1):
            x = rnd.rand(9)
            want = real(x, size, origin=origin)
            got = f(x.astype(object), size, origin=origin)
            if not all(float(g) == float(w) for g, w in zip(got, want)):
                raise AssertionError('filter shim disagrees with scipy for size %d origin %d' % (size, origin))
    return f


def install_scipy_filters():
    from ..engine import jstubs
    for modname in ('jesse.indicators.chande', 'jesse.indicators.minmax'):
        m = sys.modules.get(modname)
        if m is None:
            continue
        for kind in ('max', 'min'):
            nm = kind + 'imum_filter1d'
            if hasattr(m, nm):
                setattr(m, nm, _filter1d(kind))
    jstubs.INSTALLED.append('scipy.ndimage maximum/minimum_filter1d on object arrays (window placement self-checked against scipy on floats)')


def indicator_names():
    import jesse.indicators as ta
    return sorted(n for n in dir(ta) if not n.startswith('_') and inspect.isfunction(getattr(ta, n)))


def lowered_params(name, variant=0):
    """non-default small integer periods so that warm-up fits into a handful of candles (recorded in the evidence)"""
    import jesse.indicators as ta
    sig = inspect.signature(getattr(ta, name))
    ints = []
    for pn, p in sig.parameters.items():
        if pn in ('candles', 'sequential') or pn in NOT_PERIOD or pn.startswith(('dev', 'mult', 'nbdev')):
            continue
        if isinstance(p.default, bool) or not isinstance(p.default, int):
            continue
        if p.default >= 2:
            ints.append((pn, p.default))
    kw = {}
    if ints:
        # distinct defaults get distinct small values in the same order (2, 3, 4; equal defaults share a value): a fast and a slow
        # period that collapse to the same number would make difference-type indicators (macd, ppo, apo, ...) identically zero
        ranks = sorted(set(d for _, d in ints))
        for pn, d in ints:
            kw[pn] = 2 + min(ranks.index(d), 2) + variant
    # deviation / multiplier parameters get pairwise different values (a swapped or reused argument must be visible)
    k = 0
    for pn, p in sig.parameters.items():
        if isinstance(p.default, bool) or not isinstance(p.default, (int, float)) or pn in kw:
            continue
        if pn.startswith(('dev', 'mult', 'nbdev')) and pn not in NOT_PERIOD and p.default > 0:
            kw[pn] = float(p.default) * (1.0 + 0.5 * k)
            k += 1
    return kw, sig


def call(name, candles, kw, sig, sequential, second=None, source_type=None):
    import jesse.indicators as ta
    f = getattr(ta, name)
    args = dict(kw)
    if 'sequential' in sig.parameters:
        args['sequential'] = sequential
    if source_type is not None and 'source_type' in sig.parameters:
        args['source_type'] = source_type
    extra = []
    for pn in sig.parameters:
        if pn in ('benchmark_candles', 'candles_compare'):
            extra.append(second)
    return f(candles, *extra, **args)


def fields(res):
    """normalise an indicator result to {field: value-or-array}"""
    if isinstance(res, tuple) and hasattr(res, '_fields'):
        return {k: getattr(res, k) for k in res._fields}
    if isinstance(res, tuple):
        return {'f%d' % i: v for i, v in enumerate(res)}
    return {'value': res}


def is_nan(x):
    return (not sx.is_sym(x)) and x is not None and isinstance(x, (float, np.floating)) and x != x


def sym_matrix(ctx, n, name='k', lo=50, hi=200):
    rows = [list(sym_candle(ctx, '%s%d' % (name, i), S.T0 + i * S.MIN, lo, hi, sym_volume=True)) for i in range(n)]
    from ..engine.npshim import ObjArr
    m = S.make_candles(rows)
    return rows, (m.view(ObjArr) if m.dtype == object else m)


def same_value(ctx, a, b):
    """(structurally_ok, condition) for equality of two output entries (NaN pattern compared concretely)"""
    # "no value": NaN and None are the same observation (several indicators return None instead of NaN for a single value)
    na = a is None or is_nan(a)
    nb = b is None or is_nan(b)
    if na or nb:
        return (na and nb), True
    if isinstance(a, (bool, np.bool_)) or isinstance(b, (bool, np.bool_)):
        if sx.is_sym(a) or sx.is_sym(b):
            return True, a == b
        return bool(a) == bool(b), True
    if sx.is_sym(a) or sx.is_sym(b):
        # implementations fold length-dependent constants in binary64 (e.g. (1-a)**(n-1) * (1-a)**-(n-1-i)): equality is asked within
        # a relative 1e-7 (DESIGN 2.7 rule 4); a real dependence on other candles moves the value by far more for some input
        d = a - b
        sa = sx.sabs(a) if sx.is_sym(a) else abs(a)
        sb = sx.sabs(b) if sx.is_sym(b) else abs(b)
        tol = 1e-7 * (1.0 + sa + sb)
        return True, (d <= tol) & (d >= -tol)
    return True, ctx.equal(a, b, tol=1e-7)


def clear_difference(a, b):
    """witness condition for a violated equality: a difference far above the comparison tolerance (robust under rounding)"""
    if not (sx.is_sym(a) or sx.is_sym(b)):
        return None
    d = a - b
    sa = sx.sabs(a) if sx.is_sym(a) else abs(a)
    sb = sx.sabs(b) if sx.is_sym(b) else abs(b)
    big = 1e-3 * (1.0 + sa + sb)
    return (d > big) | (d < -big)
