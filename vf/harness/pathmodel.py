"""Path model of one simulated minute (oracle of C02 (b)/(c) and C08) and the minute monitor.

For a (normalised) candle (o, c, h, l) the price path has three monotone legs:
  c >= o : o -> l -> h -> c          c < o : o -> h -> l -> c
A position on the path is the distance travelled from the start (a real term).  hit(p, t0) is the smallest
position >= t0 at which the path passes price p (None-flag when the rest of the path misses p).
All terms are If-terms over the symbolic OHLC and prices: one solver query covers every arrangement.
The same code runs on plain floats (replay).
"""
import numpy as np

from ..engine import symex as sx
from .common import And, Or, Not, Implies


def _abs(x):
    return sx.sabs(x) if sx.is_sym(x) else abs(x)


def legs(o, c, h, l):
    bull = c >= o
    a0 = o
    b0 = sx.ite(bull, l, h)
    b1 = sx.ite(bull, h, l)
    b2 = c
    pts = [a0, b0, b1, b2]
    out = []
    start = 0.0
    for k in range(3):
        a, b = pts[k], pts[k + 1]
        ln = _abs(b - a)
        out.append((a, b, start, ln))
        start = start + ln
    return out, start


def hit(lg, p, t0):
    """(exists, position) of the first time >= t0 the path passes p"""
    exists = False
    pos = 0.0
    # build from the last leg backwards so that earlier legs take precedence
    for (a, b, s, ln) in reversed(lg):
        inside = Or(And(a <= p, p <= b), And(b <= p, p <= a))
        t = s + _abs(p - a)
        valid = And(inside, t >= t0)
        pos = sx.ite(valid, t, pos)
        exists = Or(valid, exists)
    return exists, pos


def minute_obligations(ctx, rec, m, tag='', include_market_rule=True):
    """obligations (a)-(d) of C02 and the path-order obligations of C08 for one step-simulator minute"""
    cnd = m['candle']
    o, c, h, l = cnd[1], cnd[2], cnd[3], cnd[4]
    lg, total = legs(o, c, h, l)
    ev = m['events']  # (kind, order) in program order during the matching call (liquidation excluded)
    active = [x for x in m['active_before'] if x.type != 'MARKET']
    created_pos = {}
    pi = 0.0
    nfill = 0
    for kind, od in ev:
        info = rec.order_info.get(id(od), {})
        if kind == 'submit':
            if info.get('accepted') and od.type != 'MARKET':
                active.append(od)
                created_pos[id(od)] = pi
            continue
        if kind == 'cancel':
            active = [x for x in active if x is not od]
            continue
        # fill inside the matching loop
        nfill += 1
        p = od.price
        ex, hp = hit(lg, p, pi)
        if od.type != 'MARKET':
            ctx.event('resting-fill' + tag)
            ctx.event('fill-' + od.type + tag)
            if id(od) in created_pos:
                ctx.event('reaction-order-fill' + tag)
            # (a)
            ctx.prove(And(od.price == info['price0'], od.qty == info['qty0']), 'C02a:own-price-and-qty',
                      {'order': info.get('seq')})
            ctx.prove(And(l <= p, p <= h), 'C02a:price-inside-minute-range', {'order': info.get('seq')})
            ctx.prove(info.get('cancel_time') is None and info['created_time'] <= info['fill_time'],
                      'C02d:fill-after-submit-before-cancel')
        ctx.prove(ex, 'C08:fill-is-on-remaining-path', {'order': info.get('seq'), 'fill_index': nfill})
        for a in active:
            if a is od:
                continue
            exa, ha = hit(lg, a.price, pi)
            ctx.prove(Or(Not(exa), ha >= hp), 'C08:earliest-hit-fills-first',
                      {'filled': info.get('seq'), 'other': rec.order_info.get(id(a), {}).get('seq'), 'fill_index': nfill})
        pi = hp
        active = [x for x in active if x is not od]
    # (c) nothing reachable is left
    still = m['active_after']
    for a in active:
        if not any(a is x for x in still):
            continue
        exa, _ = hit(lg, a.price, pi)
        ctx.event('order-survives-minute' + tag)
        ctx.prove(Not(exa), 'C02c:no-active-order-left-inside-range',
                  {'order': rec.order_info.get(id(a), {}).get('seq'), 'fills_in_minute': nfill,
                   'reaction': id(a) in created_pos})
    if nfill >= 2:
        ctx.event('minute-with-2-fills' + tag)
    return nfill
