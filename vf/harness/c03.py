"""C03 - the futures account equals an average-cost margin account model (H-API).

Bounded histories of submit / execute / cancel on the real Sandbox driver, Order, Position and FuturesExchange
(passive strategy attached, as in a session); every quantity, price, fee and the starting balance are
symbolic, leverage is enumerated.  A reference model written from the statement is folded over the same
history; after every operation the solver must prove every observable equal.
"""
import itertools

import numpy as np

from ..engine import symex as sx
from ..engine.explore import Job
from ..engine.concrete import replay_harness
from . import session as S
from .apih import ApiSession
from .common import And, Or, Not, Implies

ID = 'C03'
SYMS = ('BTC-USDT', 'ETH-USDT')


class MarginModel:
    """average-cost margin account (the statement's reference); leverage L concrete"""

    def __init__(self, w, fee, L, symbols):
        self.w = w
        self.fee = fee
        self.L = L
        self.q = {s: 0.0 for s in symbols}
        self.e = {s: None for s in symbols}

    def fill(self, ctx, s, Q, P, reduce_only):
        """Q signed order quantity.  returns the effect name"""
        aq = sx.sabs(Q) if sx.is_sym(Q) else abs(Q)
        self.w = self.w - aq * P * self.fee
        q = self.q[s]
        if _is_zero(q):
            self.q[s], self.e[s] = Q, P
            return 'open'
        qpos = bool(q > 0)
        same = qpos == bool(Q > 0)
        absq = q if qpos else -q
        sign = 1.0 if qpos else -1.0
        if same:
            if reduce_only:
                return 'none'
            self.e[s] = (aq * P + absq * self.e[s]) / (aq + absq)
            self.q[s] = q + Q
            return 'increase'
        if bool(aq < absq):
            self.w = self.w + (P - self.e[s]) * aq * sign
            self.q[s] = q + Q
            return 'reduce'
        if bool(aq == absq) or reduce_only:
            self.w = self.w + (P - self.e[s]) * absq * sign
            self.q[s], self.e[s] = 0.0, None
            return 'close'
        # flip: close, then open the remainder at the same price
        self.w = self.w + (P - self.e[s]) * absq * sign
        self.q[s], self.e[s] = q + Q, P
        return 'flip'

    def upnl(self, s, cur):
        if _is_zero(self.q[s]):
            return 0.0
        return (cur - self.e[s]) * self.q[s]

    def margin(self, cur, resting):
        """resting: {symbol: {'buy': [(q,p)], 'sell': [(q,p)]}}"""
        m = self.w
        for s in self.q:
            if not _is_zero(self.q[s]):
                absq = sx.sabs(self.q[s]) if sx.is_sym(self.q[s]) else abs(self.q[s])
                m = m - (absq * self.e[s] / self.L - self.upnl(s, cur[s]))
            b = 0.0
            for (q, p) in resting[s]['buy']:
                b = b + _abs(q * p)
            sl = 0.0
            for (q, p) in resting[s]['sell']:
                sl = sl + _abs(q * p)
            m = m - _max(b, sl) / self.L
        return m


def _abs(x):
    return sx.sabs(x) if sx.is_sym(x) else abs(x)


def _max(a, b):
    return sx.smax(a, b) if (sx.is_sym(a) or sx.is_sym(b)) else max(a, b)


def _is_zero(q):
    if sx.is_sym(q):
        return bool(q == 0)
    return q == 0


def resting_of(api):
    r = {s: {'buy': [], 'sell': []} for s in api.symbols}
    for o in api.orders:
        if o is not None and o.is_active and not o.reduce_only:
            r[o.symbol][o.side].append((o.qty, o.price))
    return r


def compare(ctx, api, model, cur, tag):
    ex = api.exchange
    ctx.prove(ctx.equal(ex.wallet_balance, model.w), 'C03:wallet-balance', {'after': tag})
    for s in api.symbols:
        p = api.positions[s]
        ctx.prove(ctx.equal(p.qty, model.q[s]), 'C03:position-qty', {'after': tag})
        if not _is_zero(model.q[s]):
            ctx.prove(ctx.equal(p.entry_price, model.e[s]), 'C03:entry-price', {'after': tag})
            ctx.prove(p.type == ('long' if bool(model.q[s] > 0) else 'short'), 'C03:position-side', {'after': tag})
            ctx.prove(ctx.equal(p.pnl, model.upnl(s, cur[s])), 'C03:unrealised-pnl', {'after': tag})
        else:
            ctx.prove(p.type == 'close', 'C03:position-side', {'after': tag})
    ctx.prove(ctx.equal(ex.available_margin, model.margin(cur, resting_of(api))), 'C03:available-margin', {'after': tag})


def h_history(ctx, skeleton=(), leverage=2, mode='cross', nsym=1):
    """skeleton: list of ops
       ['S', sym_index, side, type, reduce_only]   submit (order index = number of previous submits)
       ['X', k]  execute order k      ['C', k]  cancel order k      ['P', sym_index]  move the current price
    """
    from jesse.exceptions import InsufficientMargin
    symbols = SYMS[:nsym]
    bal = ctx.real('balance', 100, 100000)
    fee = ctx.real('fee', 0, 0.01)
    cfg = S.config_dict('futures', leverage=leverage, mode=mode, fee=fee, balance=bal)
    api = ApiSession(cfg, symbols=symbols, price0=100.0)
    model = MarginModel(bal, fee, leverage, symbols)
    cur = {s: 100.0 for s in symbols}
    nsub = 0
    compare(ctx, api, model, cur, 'init')
    for step, op in enumerate(skeleton):
        tag = '%d:%s' % (step, ''.join(str(x) for x in op))
        if op[0] == 'P':
            s = symbols[op[1]]
            pr = ctx.real('cur%d' % step, 1, 1000)
            api.set_price(s, pr)
            cur[s] = pr
        elif op[0] == 'S':
            s = symbols[op[1]]
            side, typ, ro = op[2], op[3], bool(op[4])
            if ro and api.positions[s].is_close:
                ctx.event('illegal-reduce-only-skipped')
                return
            q = ctx.real('q%d' % nsub, 0.001, 100)
            pr = ctx.real('p%d' % nsub, 1, 1000) if typ != 'MARKET' else cur[s]
            nsub += 1
            Q = q if side == 'buy' else -q
            before = model.margin(cur, resting_of(api))
            try:
                api.submit(s, side, typ, q, pr, ro)
                raised = False
            except InsufficientMargin:
                raised = True
                api.orders.append(None)
            should = False if ro else (_abs(Q * pr) / leverage > before)
            ctx.prove(should if raised else Not(should), 'C03:rejected-iff-notional-over-leverage-exceeds-margin', {'after': tag})
            if raised:
                ctx.event('rejected-submission')
                return  # a rejected submission ends the sequence
        elif op[0] == 'C':
            o = api.orders[op[1]]
            if o is None or not o.is_active:
                ctx.event('op-on-final-order-skipped')
                return
            o.cancel()
        elif op[0] == 'X':
            o = api.orders[op[1]]
            if o is None or not o.is_active:
                ctx.event('op-on-final-order-skipped')
                return
            s = o.symbol
            if o.reduce_only and api.positions[s].is_close:
                ctx.event('illegal-reduce-only-skipped')
                return
            api.set_price(s, o.price)  # the simulator sets the current price to the fill price before executing
            cur[s] = o.price
            api.tick()
            eff = model.fill(ctx, s, o.qty, o.price, o.reduce_only)
            o.execute()
            ctx.event('effect-' + eff)
        compare(ctx, api, model, cur, tag)
    ctx.event('history-complete')


def h_step(ctx, pos='long', nbuy=1, nsell=1, op=('X', 'buy', 0), leverage=2):
    """H-STEP: one operation from an ARBITRARY valid pre-state (inductive step - covers histories of any length).
    pre-state: wallet w0, position (flat / long q0 @ e0 / short q0 @ e0), current price, nbuy + nsell resting non-reduce-only orders with
    symbolic quantities and prices, written into the real objects (the resting orders through real submissions while the wallet is
    temporarily huge, so that nothing is rejected and no constraint links them to w0; position fields directly).
    op: ('X', side, k) execute resting order k of that side | ('C', side, k) cancel it |
        ('N', side, type, reduce_only) submit a new order and, if accepted, execute it"""
    from jesse.exceptions import InsufficientMargin
    s = SYMS[0]
    fee = ctx.real('fee', 0, 0.01)
    w0 = ctx.real('w0', 1, 100000)
    cfg = S.config_dict('futures', leverage=leverage, mode='cross', fee=fee, balance=1e12)
    api = ApiSession(cfg, symbols=(s,), price0=100.0)
    ex = api.exchange
    rest = {'buy': [], 'sell': []}
    for side, n in (('buy', nbuy), ('sell', nsell)):
        for i in range(n):
            q = ctx.real('r%s%d_q' % (side[0], i), 0.001, 100)
            pr = ctx.real('r%s%d_p' % (side[0], i), 1, 1000)
            rest[side].append(api.submit(s, side, 'LIMIT', q, pr, False))
    p = api.positions[s]
    cur = ctx.real('cur', 1, 1000)
    model = MarginModel(w0, fee, leverage, [s])
    if pos != 'flat':
        q0 = ctx.real('q0', 0.001, 100)
        e0 = ctx.real('e0', 1, 1000)
        p.qty = q0 if pos == 'long' else -q0
        p.previous_qty = 0
        p.entry_price = e0
        p.opened_at = api.store.app.time
        model.q[s], model.e[s] = p.qty, e0
    p.current_price = cur
    ex.assets[ex.settlement_currency] = w0
    curd = {s: cur}
    compare(ctx, api, model, curd, 'pre-state')
    ctx.event('pre-state-' + pos)
    if op[0] in ('X', 'C'):
        o = rest[op[1]][op[2]]
        if op[0] == 'C':
            o.cancel()
        else:
            api.set_price(s, o.price)
            curd[s] = o.price
            api.tick()
            eff = model.fill(ctx, s, o.qty, o.price, o.reduce_only)
            o.execute()
            ctx.event('effect-' + eff)
    else:
        side, typ, ro = op[1], op[2], bool(op[3])
        if ro and pos == 'flat':
            ctx.event('illegal-reduce-only-skipped')
            return
        q = ctx.real('nq', 0.001, 100)
        pr = ctx.real('np', 1, 1000) if typ != 'MARKET' else cur
        Q = q if side == 'buy' else -q
        before = model.margin(curd, resting_of(api))
        try:
            o = api.submit(s, side, typ, q, pr, ro)
            raised = False
        except InsufficientMargin:
            raised = True
        should = False if ro else (_abs(Q * pr) / leverage > before)
        ctx.prove(should if raised else Not(should), 'C03:rejected-iff-notional-over-leverage-exceeds-margin', {'after': 'step:' + str(op)})
        if raised:
            ctx.event('rejected-submission')
            return
        compare(ctx, api, model, curd, 'step-submit:' + str(op))
        api.set_price(s, o.price)
        curd[s] = o.price
        api.tick()
        eff = model.fill(ctx, s, o.qty, o.price, o.reduce_only)
        o.execute()
        ctx.event('effect-' + eff)
    compare(ctx, api, model, curd, 'step:' + str(op))
    ctx.event('step-complete')


def skeletons(length, nsym=1, types=('LIMIT', 'MARKET')):
    """all legal skeletons of exactly `length` operations (first op is a submit)"""
    out = []

    def rec(prefix, nsub, live):
        if len(prefix) == length:
            out.append(list(prefix))
            return
        for si in range(nsym):
            for side in ('buy', 'sell'):
                for typ in types:
                    for ro in (0, 1):
                        if ro and nsub == 0:
                            continue
                        rec(prefix + [['S', si, side, typ, ro]], nsub + 1, live | {nsub})
        for k in sorted(live):
            rec(prefix + [['X', k]], nsub, live - {k})
            rec(prefix + [['C', k]], nsub, live - {k})
        if prefix and prefix[-1][0] != 'P' and any(p[0] == 'X' for p in prefix):
            for si in range(nsym):
                rec(prefix + [['P', si]], nsub, live)

    rec([], 0, frozenset())
    return out


def h_bundle(ctx, skeletons_list=(), leverage=2, mode='cross', nsym=1):
    """one job explores a list of skeletons: the first decision selects the skeleton"""
    k = ctx.int('skeleton', 0, len(skeletons_list) - 1)
    idx = ctx.concretize_int(k)
    h_history(ctx, skeleton=skeletons_list[idx], leverage=leverage, mode=mode, nsym=nsym)


JOBFN = {'h_history': h_history, 'h_step': h_step}


def _jobs(tier):
    jobs = []
    if tier == 'quick':
        levs = (1, 2, 10)
        lens = (2, 3)
    else:
        levs = (1, 2, 3, 5, 10, 20, 50, 100, 125)
        lens = (2, 3)
    for L in levs:
        for n in lens:
            sk = skeletons(n, 1, types=('LIMIT', 'MARKET') if n <= 2 else ('LIMIT',))
            for i, s in enumerate(sk):
                jobs.append(Job('hist_L%d_%s' % (L, _name(s)), h_history,
                                {'skeleton': s, 'leverage': L, 'mode': 'isolated' if L == 10 else 'cross', 'nsym': 1}))
    # targeted length-4/5 histories: open, increase, partial reduce, oversize reduce-only, flip, with price moves
    targeted = [
        [['S', 0, 'buy', 'LIMIT', 0], ['X', 0], ['S', 0, 'buy', 'LIMIT', 0], ['X', 1], ['P', 0]],
        [['S', 0, 'buy', 'LIMIT', 0], ['X', 0], ['S', 0, 'sell', 'STOP', 1], ['P', 0], ['X', 1]],
        [['S', 0, 'sell', 'LIMIT', 0], ['X', 0], ['S', 0, 'buy', 'STOP', 1], ['P', 0], ['X', 1]],
        [['S', 0, 'buy', 'MARKET', 0], ['X', 0], ['S', 0, 'sell', 'LIMIT', 0], ['X', 1], ['P', 0]],
        [['S', 0, 'sell', 'MARKET', 0], ['X', 0], ['S', 0, 'buy', 'LIMIT', 0], ['X', 1], ['P', 0]],
        [['S', 0, 'buy', 'LIMIT', 0], ['S', 0, 'sell', 'LIMIT', 0], ['X', 0], ['P', 0], ['C', 1]],
        [['S', 0, 'buy', 'LIMIT', 0], ['X', 0], ['S', 0, 'sell', 'LIMIT', 1], ['S', 0, 'sell', 'STOP', 1], ['X', 1]],
        [['S', 0, 'buy', 'LIMIT', 0], ['X', 0], ['S', 0, 'sell', 'LIMIT', 1], ['X', 1], ['S', 0, 'sell', 'LIMIT', 0]],
    ]
    for L in (levs if tier != 'quick' else (2,)):
        for s in targeted:
            jobs.append(Job('hist_L%d_%s' % (L, _name(s)), h_history, {'skeleton': s, 'leverage': L, 'mode': 'cross', 'nsym': 1}))
    # two symbols sharing one wallet
    two = [
        [['S', 0, 'buy', 'LIMIT', 0], ['S', 1, 'sell', 'LIMIT', 0], ['X', 0], ['X', 1], ['P', 0]],
        [['S', 0, 'buy', 'LIMIT', 0], ['X', 0], ['P', 0], ['S', 1, 'buy', 'LIMIT', 0], ['X', 1]],
        [['S', 0, 'buy', 'LIMIT', 0], ['X', 0], ['S', 1, 'sell', 'LIMIT', 0], ['C', 1], ['P', 0]],
    ]
    for L in ((2,) if tier == 'quick' else (1, 3, 20)):
        for s in two:
            jobs.append(Job('hist2_L%d_%s' % (L, _name(s)), h_history, {'skeleton': s, 'leverage': L, 'mode': 'cross', 'nsym': 2}))
    for L in ((3,) if tier == 'quick' else (2, 10, 50)):
        if True:
            for s in skeletons(4, 1, types=('LIMIT',)):
                jobs.append(Job('hist_L%d_%s' % (L, _name(s)), h_history, {'skeleton': s, 'leverage': L, 'mode': 'cross', 'nsym': 1}))
    # H-STEP: one operation from an arbitrary pre-state
    for L in ((2,) if tier == 'quick' else (1, 3, 10, 50, 125)):
        for pos in ('flat', 'long', 'short'):
            for (nb, ns) in (((1, 1),) if tier == 'quick' else ((0, 0), (1, 1), (2, 1), (1, 2))):
                ops = []
                for side, n in (('buy', nb), ('sell', ns)):
                    for k in range(n):
                        ops += [('X', side, k), ('C', side, k)]
                for side in ('buy', 'sell'):
                    for typ in ('LIMIT', 'MARKET'):
                        for ro in (0, 1):
                            ops.append(('N', side, typ, ro))
                for op in ops:
                    jobs.append(Job('step_L%d_%s_%d%d_%s' % (L, pos, nb, ns, ''.join(str(x)[0] for x in op)), h_step,
                                    {'pos': pos, 'nbuy': nb, 'nsell': ns, 'op': list(op), 'leverage': L}))
    for j in jobs:
        j.opts.update({'nlsat_fallback': True, 'prove_timeout_ms': 15000})
    return jobs


def _name(s):
    return '.'.join(''.join(str(x)[0] if isinstance(x, str) else str(x) for x in op) for op in s)


def setup(tier, seed):
    from ..engine import jstubs
    jstubs.install_core()
    S.install_monitors()
    jobs = _jobs(tier)
    return {
        'jobs': jobs,
        'budget_s': 780 if tier == 'quick' else 3300,
        'explanation': 'bounded submit/execute/cancel histories on the real Sandbox driver, Order, Position and FuturesExchange with a '
                       'passive strategy attached (as _prepare_routes does); starting balance, fee, every quantity and price symbolic; '
                       'after every operation z3 proves wallet, position qty/side/entry, unrealised PnL and available margin equal to the '
                       'average-cost margin model of the statement, and InsufficientMargin raised iff notional/leverage exceeds the '
                       "model's available margin.",
        'bounds': {'history_length': 'all legal skeletons of length 2-3 (+4 in thorough) and targeted length-5 histories',
                   'leverage': sorted({j.kwargs['leverage'] for j in jobs}), 'skeletons': len(jobs),
                   'values': 'qty in [0.001,100], price in [1,1000], fee in [0,0.01], balance in [100,1e5]'},
        'outside': ['leverage outside the enumerated set (symbolic leverage makes z3 answer unknown)', 'histories longer than 5',
                    'float rounding (reals; Decimal helpers as exact +,-)'],
        'stubs': list(jstubs.INSTALLED),
        'assumptions': ['floats as reals', 'legal histories per the quantifier (reduce-only only against an open position; rejected submission ends the history)',
                        'the set of resting orders is taken from the real order statuses (the strategy layer cancels everything on close)'],
        'must_reach': ['step-complete', 'pre-state-long', 'pre-state-short', 'pre-state-flat', 'C03:available-margin', 'C03:rejected-iff-notional-over-leverage-exceeds-margin', 'effect-open', 'effect-increase',
                       'effect-reduce', 'effect-close', 'effect-flip', 'rejected-submission'],
    }


def signature(v):
    return v['label']


def make_witness(v):
    fn = 'h_step' if v['job'].startswith('step_') else 'h_history'
    return {'fn': fn, 'kwargs': v['bounds'], 'label': v['label'], 'model': v['model'], 'info': v.get('info')}


def replay(w):
    S.install_monitors()
    return replay_harness(JOBFN[w['fn']], w['kwargs'], w['model'], w['label'])
