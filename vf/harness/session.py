"""H-SESSION: run jesse.research.backtest on symbolic candles with recording strategy templates.

Works both under SYMEX (proxies, stubs installed) and concretely (replay on the unpatched code):
the same functions build the session; only the values differ.
"""
import sys

import numpy as np

from ..engine import symex as sx

EXCHANGE = 'Sandbox'
SYMBOL = 'BTC-USDT'
T0 = 1609459200000  # 2021-01-01T00:00:00Z, aligned to every timeframe up to 1D
MIN = 60_000

REC = None  # current recorder (module global; monitors write to it)
_MON_INSTALLED = False


class Recorder:
    def __init__(self):
        self.events = []        # (kind, time, payload)
        self.orders = []        # order objects in creation order
        self.order_info = {}    # id(order) -> dict
        self.fills = []         # order objects in execution order
        self.cancels = []
        self.minutes = []       # per matching call: dict
        self.hooks = []         # (time, hook, payload)
        self.refs = {}
        self.exc = None
        self.liq = []

    def ev(self, kind, **payload):
        from jesse.store import store
        self.events.append((kind, store.app.time, payload))


def install_monitors():
    """wrap Order.__init__/execute/cancel and the per-minute matching entry points (instrumentation only:
    the wrapped functions run unchanged)"""
    global _MON_INSTALLED
    if _MON_INSTALLED:
        return
    _MON_INSTALLED = True
    from jesse.models import Order
    from jesse.store import store
    import jesse.modes.backtest_mode as bm

    o_init, o_exec, o_cancel = Order.__init__, Order.execute, Order.cancel

    def init(self, attributes=None, **kw):
        rec = REC
        if rec is not None:
            cur = None
            try:
                from jesse.services import selectors
                p = selectors.get_position(attributes['exchange'], attributes['symbol'])
                cur = p.current_price if p is not None else None
            except Exception:
                cur = None
            sp = None
            try:
                if p is not None and p.strategy is not None:
                    sp = p.strategy.price
            except Exception:
                sp = None
            info = {'created_time': store.app.time, 'price_at_submit': cur, 'strategy_price': sp, 'accepted': False,
                    'pos_type': (p.type if p is not None else None), 'n_hooks': len(rec.hooks),
                    'seq': len(rec.orders), 'created_in_minute': len(rec.minutes) if rec.refs.get('in_minute') else None}
            rec.order_info[id(self)] = info
            rec.orders.append(self)
        o_init(self, attributes, **kw)
        if rec is not None:
            info['accepted'] = True
            info['price0'] = self.price
            info['qty0'] = self.qty
            info['type0'] = self.type
            info['liquidation'] = bool(rec.refs.get('in_liq'))
            rec.events.append(('submit', store.app.time, {'order': self}))
            if rec.refs.get('in_minute') and not rec.refs.get('in_liq'):
                rec.minutes[-1]['events'].append(('submit', self))

    def execute(self, silent=False):
        rec = REC
        was_active = self.is_active
        if rec is not None and was_active:
            info = rec.order_info.setdefault(id(self), {})
            info['fill_time'] = store.app.time
            info['fill_seq'] = len(rec.fills)
            rec.fills.append(self)
            if rec.refs.get('in_minute') and not rec.refs.get('in_liq'):
                rec.minutes[-1]['fills'].append(self)
                rec.minutes[-1]['events'].append(('fill', self))
            rec.events.append(('fill', store.app.time, {'order': self}))
        return o_exec(self, silent)

    def cancel(self, silent=False, source=''):
        rec = REC
        was_active = self.is_active
        if rec is not None and was_active:
            info = rec.order_info.setdefault(id(self), {})
            info['cancel_time'] = store.app.time
            rec.cancels.append(self)
            rec.events.append(('cancel', store.app.time, {'order': self}))
            if rec.refs.get('in_minute') and not rec.refs.get('in_liq'):
                rec.minutes[-1]['events'].append(('cancel', self))
        return o_cancel(self, silent, source)

    Order.__init__, Order.execute, Order.cancel = init, execute, cancel

    spce, spcem = bm._simulate_price_change_effect, bm._simulate_price_change_effect_multiple_candles
    cfl = bm._check_for_liquidations

    def w_spce(real_candle, exchange, symbol, *more, **kw):
        rec = REC
        if rec is None:
            return spce(real_candle, exchange, symbol, *more, **kw)
        m = {'mode': 'step', 'time': store.app.time, 'candle': real_candle.copy(), 'symbol': symbol,
             'active_before': [o for o in store.orders.get_active_orders(exchange, symbol) if o.is_active],
             'fills': [], 'events': [], 'orders_before': len(rec.orders), 'liq': None,
             'pending_market': [o for o in rec.orders if o.type == 'MARKET' and o.is_active]}
        rec.minutes.append(m)
        rec.refs['in_minute'] = True
        try:
            return spce(real_candle, exchange, symbol, *more, **kw)
        finally:
            rec.refs['in_minute'] = False
            m['active_after'] = [o for o in store.orders.get_active_orders(exchange, symbol) if o.is_active]
            m['orders_after'] = len(rec.orders)

    def w_spcem(short_candles, exchange, symbol, *more, **kw):
        rec = REC
        if rec is None:
            return spcem(short_candles, exchange, symbol, *more, **kw)
        m = {'mode': 'fast', 'time': store.app.time, 'candles': short_candles.copy(), 'symbol': symbol,
             'active_before': [o for o in store.orders.get_active_orders(exchange, symbol) if o.is_active],
             'fills': [], 'events': [], 'orders_before': len(rec.orders), 'liq': None,
             'pending_market': [o for o in rec.orders if o.type == 'MARKET' and o.is_active]}
        rec.minutes.append(m)
        rec.refs['in_minute'] = True
        try:
            return spcem(short_candles, exchange, symbol, *more, **kw)
        finally:
            rec.refs['in_minute'] = False
            m['active_after'] = [o for o in store.orders.get_active_orders(exchange, symbol) if o.is_active]
            m['orders_after'] = len(rec.orders)

    def w_cfl(*args, **kw):
        rec = REC
        if rec is None:
            return cfl(*args, **kw)
        # (candle, exchange, symbol) in the repository; a variant without the candle argument is followed as well
        strs = [a for a in args if isinstance(a, str)]
        exchange, symbol = strs[0], strs[1]
        candle = next((a for a in args if not isinstance(a, str)), None)
        if candle is None:
            candle = np.array(_minute_candle(rec), dtype=object) if _minute_candle(rec) is not None else np.zeros(6)
        from jesse.services import selectors
        p = selectors.get_position(exchange, symbol)
        pre = None
        if p is not None:
            pre = {'qty': p.qty, 'entry': p.entry_price, 'is_open': p.is_open, 'type': p.type, 'mode': p.mode,
                   'liq_price': p.liquidation_price if p.is_open else None,
                   'bankruptcy': p.bankruptcy_price if p.is_open else None,
                   'wallet': p.exchange.wallet_balance, 'total_liq': store.app.total_liquidations,
                   'n_orders': len(rec.orders), 'n_fills': len(rec.fills), 'candle': candle.copy(),
                   'minute_candle': _minute_candle(rec),
                   'leverage': getattr(p.exchange, 'futures_leverage', None), 'fee': p.exchange.fee_rate}
        rec.refs['in_liq'] = True
        try:
            r = cfl(*args, **kw)
        finally:
            rec.refs['in_liq'] = False
        if p is not None:
            pre['post'] = {'qty': p.qty, 'is_open': p.is_open, 'wallet': p.exchange.wallet_balance,
                           'total_liq': store.app.total_liquidations, 'n_orders': len(rec.orders),
                           'n_fills': len(rec.fills),
                           'active': [o for o in store.orders.get_active_orders(exchange, symbol) if o.is_active]}
            rec.liq.append(pre)
            if rec.minutes:
                rec.minutes[-1]['liq'] = pre
        return r

    bm._simulate_price_change_effect = w_spce
    bm._simulate_price_change_effect_multiple_candles = w_spcem
    bm._check_for_liquidations = w_cfl


def _minute_candle(rec):
    """the candle of the minute (or the aggregated candle of the fast-mode chunk) being simulated, as handed to the matching entry point"""
    if not rec.minutes or not rec.refs.get('in_minute'):
        return None
    m = rec.minutes[-1]
    if m['mode'] == 'step':
        return m['candle']
    cs = m['candles']
    hi, lo = cs[0][3], cs[0][4]
    for i in range(1, len(cs)):
        hi = sx.smax(hi, cs[i][3]) if (sx.is_sym(hi) or sx.is_sym(cs[i][3])) else max(hi, cs[i][3])
        lo = sx.smin(lo, cs[i][4]) if (sx.is_sym(lo) or sx.is_sym(cs[i][4])) else min(lo, cs[i][4])
    return [cs[0][0], cs[0][1], cs[-1][2], hi, lo, 0.0]


def make_candles(rows):
    """(n,6) matrix; object dtype when any entry is a proxy, float64 otherwise"""
    symbolic = any(sx.is_sym(v) for r in rows for v in r)
    m = np.empty((len(rows), 6), dtype=object if symbolic else float)
    for i, r in enumerate(rows):
        for j in range(6):
            v = r[j]
            if symbolic and isinstance(v, (int, float)) and not isinstance(v, np.generic):
                v = np.float64(v)
            m[i, j] = v
    return m


def flat_row(ts, price, volume=10.0):
    return [ts, price, price, price, price, volume]


def config_dict(exchange_type='futures', leverage=2, mode='cross', fee=0.0, balance=10000.0, warm_up=0,
                exchange=EXCHANGE):
    c = {'starting_balance': balance, 'fee': fee, 'type': exchange_type, 'exchange': exchange,
         'warm_up_candles': warm_up}
    if exchange_type == 'futures':
        c['futures_leverage'] = leverage
        c['futures_leverage_mode'] = mode
    return c


def run_session(candles, strategy_cls, cfg, timeframe='1m', data_routes=(), warmup=None, fast=False,
                hyperparameters=None, symbol=SYMBOL, extra=None, fresh_process_state=True, recorder=None,
                catch=()):
    """one research.backtest call.  returns the Recorder.  `extra`: list of (symbol, candles, strategy_cls, timeframe)
    for additional trading routes."""
    global REC
    from jesse.research import backtest
    if fresh_process_state:
        import jesse.helpers as jh
        jh.CACHED_CONFIG.clear()
    exchange = cfg['exchange']
    routes = [{'exchange': exchange, 'strategy': strategy_cls, 'symbol': symbol, 'timeframe': timeframe}]
    cdict = {'%s-%s' % (exchange, symbol): {'exchange': exchange, 'symbol': symbol, 'candles': candles}}
    for (sym2, c2, st2, tf2) in (extra or []):
        if st2 is not None:
            routes.append({'exchange': exchange, 'strategy': st2, 'symbol': sym2, 'timeframe': tf2})
        cdict['%s-%s' % (exchange, sym2)] = {'exchange': exchange, 'symbol': sym2, 'candles': c2}
    droutes = [{'exchange': exchange, 'symbol': d[0], 'timeframe': d[1]} for d in data_routes]
    rec = recorder or Recorder()
    REC = rec
    try:
        rec.result = backtest(cfg, routes, droutes, cdict, warmup_candles=warmup, fast_mode=fast,
                              hyperparameters=hyperparameters)
    except catch as e:
        rec.exc = e
    finally:
        REC = None
    return rec


# ---- strategy templates -------------------------------------------------------------------------------


def base_strategy():
    from jesse.strategies import Strategy
    return Strategy


def snapshot(s):
    """what a strategy can see about its account at a step"""
    p = s.position
    return {'qty': p.qty, 'entry': p.entry_price, 'balance': s.balance, 'margin': s.available_margin,
            'price': s.price, 'type': p.type}


def make_template(side='long', entry=None, stop=None, take=None, qty=1.0, on_open_exits=False,
                  entry_step=0, name='T1', update_take=None, update_stop=None, liquidate_at=None,
                  cancel_entry=True, reduced_stop=None, record_candles=False, increased=None, extra_hooks=None,
                  exit_qty_from_position=False, reenter=False):
    """T-family template.
    entry: price or list of (qty, price) rows (None -> at market = current price)
    stop/take: price or list of rows, declared in go_long/go_short (or in on_open_position if on_open_exits)
    update_take/update_stop: callable(strategy) -> rows, applied in update_position
    reduced_stop: rows set in on_reduced_position
    liquidate_at: strategy index at which liquidate() is called
    reenter: a new entry is declared at the first step after a trade has closed (consecutive trades)
    """
    Strategy = base_strategy()

    def rows(x, q):
        if x is None:
            return None
        if isinstance(x, list):
            return [tuple(r) for r in x]
        return (q, x)

    class T(Strategy):
        tpl_name = name

        def _rec(self, hook, **kw):
            rec = REC
            if rec is not None:
                kw['snap'] = snapshot(self)
                kw['n_events'] = len(rec.events)
                if record_candles:
                    kw['candles'] = self.candles
                rec.hooks.append((self.time, hook, kw))

        def before(self):
            self._rec('before', index=self.index, active=[o for o in self.orders_active()],
                      is_open=self.position.is_open)

        def after(self):
            cp = lambda a: None if a is None else [tuple(r) for r in a]
            self._rec('after', index=self.index,
                      active=[o for o in self.orders_active()], is_open=self.position.is_open,
                      sl=cp(self.stop_loss), tp=cp(self.take_profit), ptype=self.position.type)

        def orders_active(self):
            from jesse.store import store
            return [o for o in store.orders.get_active_orders(self.exchange, self.symbol) if o.is_active]

        def should_long(self):
            return side == 'long' and self.index >= entry_step and not self.vars.get('entered')

        def should_short(self):
            return side == 'short' and self.index >= entry_step and not self.vars.get('entered')

        def _declare_entry(self):
            self.vars['entered'] = True
            e = entry
            if e is None:
                e = self.price
            r = rows(e, qty)
            if side == 'long':
                self.buy = r
            else:
                self.sell = r
            if not on_open_exits:
                if stop is not None:
                    self.stop_loss = rows(stop, qty)
                if take is not None:
                    self.take_profit = rows(take, qty)
            self._rec('declare', buy=self.buy, sell=self.sell, stop_loss=self.stop_loss, take_profit=self.take_profit)

        def go_long(self):
            self._declare_entry()

        def go_short(self):
            self._declare_entry()

        def should_cancel_entry(self):
            r = cancel_entry(self) if callable(cancel_entry) else cancel_entry
            self._rec('should_cancel_entry', answer=r)
            return r

        def on_open_position(self, order):
            if on_open_exits:
                q = abs(self.position.qty) if exit_qty_from_position else qty
                if stop is not None:
                    self.stop_loss = rows(stop, q)
                if take is not None:
                    self.take_profit = rows(take, q)
            self._rec('on_open_position', order=order, stop_loss=self.stop_loss, take_profit=self.take_profit)
            if extra_hooks and 'on_open_position' in extra_hooks:
                extra_hooks['on_open_position'](self, order)

        def on_increased_position(self, order):
            if increased is not None:
                increased(self, order)
            self._rec('on_increased_position', order=order)

        def on_reduced_position(self, order):
            if reduced_stop is not None:
                self.stop_loss = reduced_stop(self) if callable(reduced_stop) else reduced_stop
            if extra_hooks and 'on_reduced_position' in extra_hooks:
                extra_hooks['on_reduced_position'](self, order)
            self._rec('on_reduced_position', order=order, stop_loss=self.stop_loss, take_profit=self.take_profit)

        def on_close_position(self, order):
            if reenter:
                self.vars['entered'] = False
            self._rec('on_close_position', order=order)

        def on_cancel(self):
            self._rec('on_cancel')

        def update_position(self):
            if update_take is not None:
                self.take_profit = update_take(self)
            if update_stop is not None:
                self.stop_loss = update_stop(self)
            if liquidate_at is not None and self.index == liquidate_at:
                self.liquidate()
            self._rec('update_position', stop_loss=self.stop_loss, take_profit=self.take_profit)

        def terminate(self):
            from jesse.store import store
            rec = REC
            if rec is not None:
                rec.refs['strategy'] = self
                rec.refs['position'] = self.position
                rec.refs['exchange_obj'] = self.position.exchange
                rec.refs['trades'] = store.completed_trades.trades
                rec.refs['completed'] = store.completed_trades
                rec.refs['app'] = store.app
                rec.refs['orders_state'] = store.orders
                rec.refs['candles_state'] = store.candles
            self._rec('terminate')

    T.__name__ = name
    return T


def minute_rows(ctx, n, first_price=100.0, sym_from=0, lo=50, hi=200, name='x', ts0=T0, concrete=None):
    """n one-minute candle rows; rows >= sym_from symbolic, earlier ones flat at first_price"""
    from .common import sym_candle
    rows = []
    for i in range(n):
        ts = ts0 + i * MIN
        if concrete is not None and i in concrete:
            rows.append(list(concrete[i]))
        elif i < sym_from:
            rows.append(flat_row(ts, first_price))
        else:
            rows.append(list(sym_candle(ctx, '%s%d' % (name, i), ts, lo, hi)))
    return rows


def rows_from_model(model, n, first_price=100.0, sym_from=0, name='x', ts0=T0, volume=10.0, concrete=None):
    rows = []
    for i in range(n):
        ts = ts0 + i * MIN
        if concrete is not None and i in concrete:
            rows.append(list(concrete[i]))
        elif i < sym_from:
            rows.append(flat_row(ts, first_price))
        else:
            k = '%s%d' % (name, i)
            rows.append([ts, model[k + '_o'], model[k + '_c'], model[k + '_h'], model[k + '_l'], volume])
    return rows


def sparse_rows(ctx, n, sym, move=None, lo=50, hi=200, first_price=100.0, name='x', ts0=T0, gaps=()):
    """n 1m rows opening at the previous close; minutes listed in `sym` are symbolic (range < move if given), the others flat"""
    rows = []
    prev = first_price
    for i in range(n):
        ts = ts0 + i * MIN
        if i in sym:
            c = ctx.real('%s%d_c' % (name, i), lo, hi, npf=True)
            h = ctx.real('%s%d_h' % (name, i), lo, hi, npf=True)
            l = ctx.real('%s%d_l' % (name, i), lo, hi, npf=True)
            o = prev
            if i in gaps:  # this minute may open away from the previous close
                o = ctx.real('%s%d_o' % (name, i), lo, hi, npf=True)
            cond = (l <= o) & (l <= c) & (o <= h) & (c <= h)
            if move is not None:
                cond = cond & (h - l < move)
                if i in gaps:
                    # the minute as simulated starts at the previous close: its whole range (gap included) stays below `move`
                    cond = cond & (o - prev < move) & (prev - o < move) & (h - prev < move) & (prev - l < move)
            ctx.constrain(cond)
            rows.append([ts, o, c, h, l, 10.0])
            prev = c
        else:
            rows.append([ts, prev, prev, prev, prev, 10.0])
    return rows
