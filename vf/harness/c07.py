"""C07 - every timeframe is the exact aggregation of the one-minute candles."""
import numpy as np

from ..engine import symex as sx
from ..engine.explore import Job
from ..engine.concrete import replay_harness
from . import session as S
from .common import And, Or, Not, Implies, sym_candle

ID = 'C07'
TFMIN = {'1m': 1, '3m': 3, '5m': 5, '15m': 15}


def _mx(a, b):
    return sx.smax(a, b) if (sx.is_sym(a) or sx.is_sym(b)) else max(a, b)


def _mn(a, b):
    return sx.smin(a, b) if (sx.is_sym(a) or sx.is_sym(b)) else min(a, b)


def fold(rows):
    """the statement's aggregation of a window of 1m rows"""
    hi, lo, vol = rows[0][3], rows[0][4], rows[0][5]
    for r in rows[1:]:
        hi, lo, vol = _mx(hi, r[3]), _mn(lo, r[4]), vol + r[5]
    return [rows[0][0], rows[0][1], rows[-1][2], hi, lo, vol]


def same_row(ctx, got, exp):
    return And(*[ctx.equal(got[j], exp[j]) for j in range(6)])


def h_kernel(ctx, w=3, tf='3m', series=0):
    """generate_candle_from_one_minutes on a symbolic window; _get_generated_candles on a symbolic series"""
    from jesse.services.candle import generate_candle_from_one_minutes, _get_generated_candles
    n = series or w
    rows = [list(sym_candle(ctx, 'k%d' % i, S.T0 + i * S.MIN, sym_volume=True)) for i in range(n)]
    m = S.make_candles(rows)
    if not series:
        full = TFMIN[tf] == w
        got = generate_candle_from_one_minutes(tf, m, accept_forming_candles=not full)
        ctx.prove(same_row(ctx, got, fold(rows)), 'C07:generated-candle-is-the-fold-of-its-window', {'w': w, 'tf': tf})
        ctx.event('kernel-window')
    else:
        got = _get_generated_candles(tf, m)
        k = TFMIN[tf]
        ctx.prove(len(got) == n // k, 'C07:one-generated-candle-per-complete-window', {'n': n, 'tf': tf})
        for j in range(min(len(got), n // k)):
            ctx.prove(same_row(ctx, got[j], fold(rows[j * k:(j + 1) * k])), 'C07:generated-candle-is-the-fold-of-its-window', {'j': j, 'tf': tf})
        ctx.event('kernel-series')


def chain_rows(ctx, n, free_open=(), lo=50, hi=200, name='x', ts0=S.T0, first_price=None, sym_volume=False):
    """n 1m rows; candle i opens at the previous close unless i in free_open (then the open is a fresh symbol: a gap)"""
    rows = []
    prev_c = first_price
    for i in range(n):
        ts = ts0 + i * S.MIN
        c = ctx.real('%s%d_c' % (name, i), lo, hi, npf=True)
        h = ctx.real('%s%d_h' % (name, i), lo, hi, npf=True)
        l = ctx.real('%s%d_l' % (name, i), lo, hi, npf=True)
        if i in free_open or prev_c is None:
            o = ctx.real('%s%d_o' % (name, i), lo, hi, npf=True)
        else:
            o = prev_c
        v = ctx.real('%s%d_v' % (name, i), 0, 1000, npf=True) if sym_volume else np.float64(10.0 + i)
        ctx.constrain(And(l <= o, l <= c, o <= h, c <= h))
        rows.append([ts, o, c, h, l, v])
        prev_c = c
    return rows


def normalised(rows):
    """the documented normalisation: open := previous close, high/low widened to it"""
    out = [list(rows[0])]
    for i in range(1, len(rows)):
        r = list(rows[i])
        pc = rows[i - 1][2]
        r[1] = pc
        r[3] = _mx(r[3], pc)
        r[4] = _mn(r[4], pc)
        out.append(r)
    return out


def reading_strategy(tfs, with_entry=None):
    Strategy = S.base_strategy()

    class R(Strategy):
        def _snap(self, where):
            rec = S.REC
            if rec is None:
                return
            from jesse.store import store
            one = store.candles.get_candles(self.exchange, self.symbol, '1m')
            d = {'where': where, 'one': np.array(one, dtype=object).copy() if len(one) else one, 'tf': {}}
            for tf in tfs:
                try:
                    d['tf'][tf] = self.get_candles(self.exchange, self.symbol, tf).copy()
                except IndexError as e:
                    d['tf'][tf] = ('IndexError', str(e)[:80])
            rec.hooks.append((self.time, 'read', d))

        def before(self):
            self._snap('before')

        def should_long(self):
            return with_entry is not None and self.index == 0

        def should_short(self):
            return False

        def go_long(self):
            self.buy = 1.0, with_entry

        def should_cancel_entry(self):
            return False

        def on_open_position(self, order):
            self._snap('on_open_position')

        def terminate(self):
            rec = S.REC
            if rec is not None:
                from jesse.store import store
                rec.refs['candles_state'] = store.candles
                rec.refs['final_one'] = store.candles.get_candles(self.exchange, self.symbol, '1m').copy()
            self._snap('terminate')

    return R


def h_session(ctx, n=6, trading='1m', data=('3m',), fast=False, free_open=(1,), warm=0, entry=False):
    tfs = sorted(set([trading] + list(data)), key=lambda t: TFMIN[t])
    rows = chain_rows(ctx, n, free_open=set(free_open), first_price=None)
    warm_rows = None
    warmup = None
    if warm:
        warm_rows = [S.flat_row(S.T0 - (warm - i) * S.MIN, 100.0 + i) for i in range(warm)]
        warmup = {'%s-%s' % (S.EXCHANGE, S.SYMBOL): {'exchange': S.EXCHANGE, 'symbol': S.SYMBOL, 'candles': S.make_candles(warm_rows).astype(float)}}
    pe = None
    if entry:
        pe = ctx.real('pe', 50, 200)
    T = reading_strategy(tfs, with_entry=pe)
    cfg = S.config_dict('futures', fee=0.0, warm_up=warm)
    try:
        rec = S.run_session(S.make_candles(rows), T, cfg, timeframe=trading, data_routes=[(S.SYMBOL, t) for t in data],
                            warmup=warmup, fast=fast)
    except (ValueError, IndexError, KeyError) as e:
        # the statement quantifies over every series length (not necessarily a multiple of the timeframe) in both simulators
        ctx.prove(False, 'C07:session-runs-for-every-series-length', {'n': n, 'trading': trading, 'fast': fast, 'error': '%s: %s' % (type(e).__name__, str(e)[:100])})
        return
    reads = [pl for (t, h, pl) in rec.hooks if h == 'read']
    ctx.prove(len(reads) > 0, 'C07:strategy-read-at-least-once')
    for pl in reads:
        one = pl['one']
        n1 = len(one)
        for tf in tfs:
            k = TFMIN[tf]
            got = pl['tf'][tf]
            if isinstance(got, tuple):
                ctx.prove(False, 'C07:candles-readable-at-every-step', {'tf': tf, 'stored_1m': n1, 'where': pl['where'], 'error': got[1], 'warm': warm})
                continue
            nwin = (n1 + k - 1) // k
            ok = ctx.prove(len(got) == nwin, 'C07:one-candle-per-started-window', {'tf': tf, 'stored_1m': n1, 'got': len(got), 'where': pl['where']})
            if not ok:
                continue
            for j in range(nwin):
                win = [one[i] for i in range(j * k, min((j + 1) * k, n1))]
                forming = len(win) < k
                ctx.event('forming-candle-read' if forming else 'complete-candle-read')
                ctx.prove(same_row(ctx, got[j], fold(win)), 'C07:candle-is-the-fold-of-its-aligned-window',
                          {'tf': tf, 'j': j, 'forming': forming, 'where': pl['where'], 'fast': fast})
    # stored 1m candles = input with the documented normalisation
    final = rec.refs.get('final_one')
    if final is not None:
        exp = (warm_rows or []) + rows
        expn = normalised(exp)
        # warm-up candles are injected as they are (not normalised); the session candles are normalised against their predecessor
        if warm_rows:
            expn = [list(r) for r in warm_rows] + normalised(rows)
        if ctx.prove(len(final) == len(expn), 'C07:stored-1m-equal-input-up-to-normalisation', {'len': len(final), 'expected': len(expn)}):
            # each stored row equals the input row, or the input row with the documented normalisation applied (the fast simulator
            # normalises only the first minute of a chunk; the statement permits the normalisation, it does not demand it)
            raw = (warm_rows or []) + rows
            ctx.prove(And(*[Or(same_row(ctx, final[i], expn[i]), same_row(ctx, final[i], raw[i])) for i in range(len(expn))]),
                      'C07:stored-1m-equal-input-up-to-normalisation', {'fast': fast})
    ctx.event('session')


JOBFN = {'h_kernel': h_kernel, 'h_session': h_session}


def _jobs(tier):
    jobs = []
    ks = [(1, '3m'), (2, '3m'), (3, '3m'), (4, '5m'), (5, '5m')] if tier == 'quick' else \
         [(1, '3m'), (2, '3m'), (3, '3m'), (1, '5m'), (2, '5m'), (3, '5m'), (4, '5m'), (5, '5m'), (6, '15m')]
    for w, tf in ks:
        jobs.append(Job('kernel_w%d_%s' % (w, tf), h_kernel, {'w': w, 'tf': tf}))
    for n, tf in ([(7, '3m')] if tier == 'quick' else [(7, '3m'), (11, '5m'), (9, '3m')]):
        jobs.append(Job('series_%d_%s' % (n, tf), h_kernel, {'w': TFMIN[tf], 'tf': tf, 'series': n}))

    def add(**kw):
        jobs.append(Job('sess_' + '_'.join(str(v).replace(' ', '') for v in kw.values()), h_session, kw, {'max_decisions': 6000}))
    if tier == 'quick':
        add(n=5, trading='1m', data=['3m'], fast=False, free_open=[1], warm=3)
        add(n=5, trading='1m', data=['3m'], fast=True, free_open=[1], warm=3)
        add(n=6, trading='3m', data=[], fast=True, free_open=[3], warm=3)
        add(n=4, trading='1m', data=['3m'], fast=False, free_open=[], warm=0)
        add(n=5, trading='1m', data=['3m'], fast=False, free_open=[], warm=3, entry=True)  # a fill inside a minute publishes a partial candle
        add(n=4, trading='1m', data=['3m'], fast=False, free_open=[], warm=0, entry=True)  # a fill inside the very first window, no warm-up (seed C07e)
        add(n=6, trading='3m', data=['5m'], fast=True, free_open=[], warm=15)  # route timeframes that are not multiples of each other
        add(n=7, trading='3m', data=[], fast=True, free_open=[], warm=0)  # session length that is not a multiple of the fast-mode step
    else:
        for fast in (False, True):
            add(n=7, trading='1m', data=['3m'], fast=fast, free_open=[1, 4], warm=3)
            add(n=6, trading='3m', data=[], fast=fast, free_open=[2, 3], warm=3)
            add(n=7, trading='1m', data=['5m'], fast=fast, free_open=[5], warm=5)
            add(n=8, trading='3m', data=['5m'], fast=fast, free_open=[], warm=15)
            add(n=5, trading='1m', data=['3m'], fast=fast, free_open=[1], warm=3, entry=True)
        add(n=4, trading='1m', data=['3m'], fast=False, free_open=[], warm=0)
        add(n=5, trading='1m', data=['3m'], fast=False, free_open=[], warm=0, entry=True)
        add(n=5, trading='1m', data=['3m'], fast=True, free_open=[], warm=0, entry=True)
        add(n=6, trading='3m', data=[], fast=True, free_open=[], warm=0)
        add(n=7, trading='3m', data=[], fast=True, free_open=[], warm=0)
        add(n=8, trading='3m', data=[], fast=True, free_open=[4], warm=3)
        add(n=11, trading='5m', data=[], fast=True, free_open=[], warm=0)
    return jobs


def setup(tier, seed):
    from ..engine import jstubs
    jstubs.install_core()
    S.install_monitors()
    jobs = _jobs(tier)
    return {
        'jobs': jobs,
        'budget_s': 780 if tier == 'quick' else 3300,
        'explanation': 'kernel: generate_candle_from_one_minutes/_get_generated_candles on symbolic windows against the statement\'s fold (first open, '
                       'last close, If-max high, If-min low, summed volume); sessions: a reading strategy copies, at every step and hook, get_candles for '
                       'every route timeframe and the stored 1m candles; z3 proves one row per started window and every row (complete or forming) '
                       'equal to the fold of its aligned window, and the stored 1m candles equal to the input up to the documented gap normalisation; '
                       'both simulators, warm-up injection, data routes.',
        'bounds': {'kernel_windows': '1..5 (quick) / 1..6 (thorough)', 'sessions': [j.name for j in jobs if j.name.startswith('sess')]},
        'outside': ['timeframes above 15m', 'sessions longer than 8 candles', 'more than 2 gapping opens per session', 'float rounding (volume sums)'],
        'stubs': list(jstubs.INSTALLED),
        'assumptions': ['floats as reals', 'session start and warm-up length aligned to every route timeframe (as the statement assumes)'],
        'must_reach': ['kernel-window', 'kernel-series', 'forming-candle-read', 'complete-candle-read', 'C07:stored-1m-equal-input-up-to-normalisation'],
    }


def signature(v):
    info = v.get('info') or {}
    sig = v['label']
    if v['label'] == 'C07:candles-readable-at-every-step' and info.get('warm') == 0:
        sig += '|no-warmup-first-window'
    return sig


def make_witness(v):
    fn = 'h_session' if v['job'].startswith('sess_') else 'h_kernel'
    return {'fn': fn, 'kwargs': v['bounds'], 'label': v['label'], 'model': v['model'], 'info': v.get('info')}


def replay(w):
    S.install_monitors()
    return replay_harness(JOBFN[w['fn']], w['kwargs'], w['model'], w['label'])
