"""C20 - candle series handed to the store are gapless and strictly ordered."""
import numpy as np

from ..engine import symex as sx
from ..engine.explore import Job
from ..engine.concrete import replay_harness
from . import session as S
from .common import And, Or, Not, Implies

ID = 'C20'
START = S.T0


def h_fill(ctx, L=4, k=3):
    """_fill_absent_candles: interval of L minutes, k provided candles at symbolic minute offsets (strictly increasing,
    possibly before/after the interval), symbolic OHLCV"""
    from jesse.modes.import_candles_mode import _fill_absent_candles
    ms = [ctx.int('m%d' % j, -2, L + 1) for j in range(k)]
    for a, b in zip(ms, ms[1:]):
        ctx.constrain(a < b)
    prov = []
    for j in range(k):
        prov.append({'id': 'id%d' % j, 'exchange': 'E', 'symbol': 'S', 'timeframe': '1m',
                     'timestamp': START + 60000 * ms[j],
                     'open': ctx.real('o%d' % j, 1, 1000), 'close': ctx.real('c%d' % j, 1, 1000),
                     'high': ctx.real('h%d' % j, 1, 1000), 'low': ctx.real('l%d' % j, 1, 1000),
                     'volume': ctx.real('v%d' % j, 0, 1000)})
    out = _fill_absent_candles(list(prov), START, START + 60000 * (L - 1))
    if not ctx.prove(len(out) == L, 'C20:one-candle-per-minute', {'len': len(out)}):
        return
    prev_close = None
    started = False
    for i in range(L):
        c = out[i]
        ts = START + 60000 * i
        ctx.prove(c['timestamp'] == ts, 'C20:fill-timestamps-strictly-increasing-by-one-minute', {'i': i})
        present = Or(*[m == i for m in ms])
        # expected fields as If-terms over the symbolic offsets
        fill_val = sx.ite(started, prev_close, prov[0]['open']) if prev_close is not None else prov[0]['open']
        exp = {}
        for f in ('open', 'close', 'high', 'low'):
            e = fill_val
            for j in reversed(range(k)):
                e = sx.ite(ms[j] == i, prov[j][f], e)
            exp[f] = e
        ev = 0.0
        for j in reversed(range(k)):
            ev = sx.ite(ms[j] == i, prov[j]['volume'], ev)
        ctx.prove(And(c['open'] == exp['open'], c['close'] == exp['close'], c['high'] == exp['high'], c['low'] == exp['low'],
                      c['volume'] == ev), 'C20:provided-kept-missing-flat-at-previous-close-zero-volume', {'i': i})
        prev_close = exp['close']
        started = Or(started, present)
    ctx.event('fill-checked')


def h_add(ctx, nadds=3, timeframe='1m', prefill=0):
    """CandlesState.add_candle with symbolic integer timestamps (new / equal to a stored one / older); `prefill` concrete
    candles (one per step) are stored first, so that the symbolic adds meet a longer series"""
    from .apih import ApiSession
    cfg = S.config_dict('futures', fee=0.0)
    api = ApiSession(cfg, symbols=(S.SYMBOL,), price0=100.0)
    store = api.store
    step = 60000 * (1 if timeframe == '1m' else 3)
    if timeframe != '1m':
        from jesse.libs import DynamicNumpyArray
        store.candles.storage['%s-%s-%s' % (api.exchange_name, S.SYMBOL, timeframe)] = DynamicNumpyArray((10, 6))
    arr = store.candles.get_storage(api.exchange_name, S.SYMBOL, timeframe)
    arr.flush()
    model = []  # list of (timestamp, marker) in store order
    for i in range(prefill):
        c0 = np.array([START + step * (i + 1), 100.0 + i, 100.0 + i, 100.0 + i, 100.0 + i, 100.0 + i])
        store.candles.add_candle(c0, api.exchange_name, S.SYMBOL, timeframe, with_execution=False, with_generation=False)
        model.append((START + step * (i + 1), 100.0 + i))
    for kk in range(nadds):
        m = ctx.int('m%d' % kk, 1, 6 if not prefill else prefill + 2)
        ts = START + step * m
        marker = float(kk + 1)
        cnd = np.empty(6, dtype=object)
        cnd[0], cnd[1], cnd[2], cnd[3], cnd[4], cnd[5] = ts, marker, marker, marker, marker, marker
        if not sx.is_sym(ts):
            cnd = cnd.astype(float)
        raised = False
        try:
            store.candles.add_candle(cnd, api.exchange_name, S.SYMBOL, timeframe, with_execution=False, with_generation=False)
        except IndexError as e:
            if 'only integers' in str(e):  # numpy's wording for an index object it could not convert: a proxy reached ndarray indexing
                raise sx.Concretization('symbolic value used as an ndarray index')
            raised = True
        # list model
        if not model or bool(ts > model[-1][0]):
            kind = 'new'
            model.append((ts, marker))
        else:
            hit = None
            for idx, (t0, _) in enumerate(model):
                if bool(t0 == ts):
                    hit = idx
            if hit is not None:
                kind = 'repeated'
                model[hit] = (ts, marker)
            else:
                kind = 'older-unknown'
        ctx.event('add-' + kind)
        if raised:
            ctx.event('IndexError-on-' + kind)
        ctx.prove((not raised) or kind == 'older-unknown', 'C20:add-of-new-or-stored-timestamp-does-not-raise', {'kind': kind, 'add': kk})
        rows = arr[:]
        ok_len = len(rows) == len(model)
        ctx.prove(ok_len, 'C20:new-appended-stored-replaced-nothing-else', {'kind': kind, 'add': kk, 'len': len(rows), 'model': len(model)})
        if ok_len:
            ctx.prove(And(*[And(rows[i][0] == model[i][0], rows[i][2] == model[i][1]) for i in range(len(model))]),
                      'C20:new-appended-stored-replaced-nothing-else', {'kind': kind, 'add': kk})
        ctx.prove(And(*[rows[i][0] < rows[i + 1][0] for i in range(len(rows) - 1)]), 'C20:stored-timestamps-strictly-increasing',
                  {'kind': kind, 'add': kk})


def h_add_multiple(ctx, first=3, second=3):
    """add_multiple_1m_candles: a fresh batch, then a second batch that is new (gap allowed) or repeats the last batch"""
    from .apih import ApiSession
    cfg = S.config_dict('futures', fee=0.0)
    api = ApiSession(cfg, symbols=(S.SYMBOL,), price0=100.0)
    store = api.store
    arr = store.candles.get_storage(api.exchange_name, S.SYMBOL, '1m')
    arr.flush()

    def batch(m0, n, base):
        b = np.empty((n, 6), dtype=object)
        for i in range(n):
            b[i, 0] = START + 60000 * (m0 + i)
            for j in range(1, 6):
                b[i, j] = np.float64(base + i)
        return b
    b1 = batch(0, first, 10.0)
    store.candles.add_multiple_1m_candles(b1.astype(float), api.exchange_name, S.SYMBOL)
    m = ctx.int('m', 0, first + 2)
    # the second batch starts after the stored series (gap allowed), repeats its tail, or overlaps the tail and extends past it; a batch
    # lying in the middle of the stored series is rejected by the store (IndexError) and is outside this harness
    ctx.constrain(m >= max(first - second, 0))
    b2 = batch(m, second, 20.0)
    try:
        store.candles.add_multiple_1m_candles(b2, api.exchange_name, S.SYMBOL)
    except ValueError as e:
        ctx.prove(False, 'C20:batch-of-new-and-stored-timestamps-does-not-raise', {'first': first, 'second': second, 'error': str(e)[:80]})
        return
    rows = arr[:]
    ctx.prove(And(*[rows[i][0] < rows[i + 1][0] for i in range(len(rows) - 1)]), 'C20:stored-timestamps-strictly-increasing', {'batch': True})
    if bool(m >= first):
        ctx.event('batch-new')
        ctx.prove(len(rows) == first + second, 'C20:new-appended-stored-replaced-nothing-else', {'batch': 'new'})
    elif bool(m == first - second):
        ctx.event('batch-repeated')
        ctx.prove(len(rows) == first and bool(And(*[rows[first - second + i][2] == 20.0 + i for i in range(second)])),
                  'C20:new-appended-stored-replaced-nothing-else', {'batch': 'repeated'})
    else:
        ctx.event('batch-overlapping')  # stored timestamps are replaced, the new ones appended
        mm = int(m)
        ok = len(rows) == mm + second and all(bool(rows[i][2] == 10.0 + i) for i in range(mm)) and all(bool(rows[mm + i][2] == 20.0 + i) for i in range(second))
        ctx.prove(ok, 'C20:new-appended-stored-replaced-nothing-else', {'batch': 'overlapping', 'first': first, 'second': second, 'm': mm})


def h_spacing(ctx, n=3):
    """research.backtest rejects input whose two leading candles are not one minute apart"""
    d = ctx.int('d', 0, 180000)
    rows = [S.flat_row(START, 100.0), S.flat_row(START + d, 100.0)]
    for i in range(2, n):
        rows.append(S.flat_row(START + d + 60000 * (i - 1), 100.0))
    from .apih import passive_strategy
    raised = False
    try:
        rec = S.run_session(S.make_candles(rows), passive_strategy(), S.config_dict('futures', fee=0.0))
    except ValueError as e:
        raised = 'must be 1m candles' in str(e)
        if not raised:
            raise
    ctx.prove(Not(d == 60000) if raised else (d == 60000), 'C20:backtest-rejects-iff-leading-candles-not-one-minute-apart', {'raised': raised})
    ctx.event('spacing-raised' if raised else 'spacing-accepted')


JOBFN = {'h_fill': h_fill, 'h_add': h_add, 'h_add_multiple': h_add_multiple, 'h_spacing': h_spacing}


def _jobs(tier):
    jobs = []
    if tier == 'quick':
        fills = [(L, k) for L in (1, 2, 3, 4, 5) for k in (1, 2, 3)]
        adds = [(3, '1m'), (4, '1m'), (5, '1m'), (3, '3m'), (4, '3m')]
    else:
        fills = [(L, k) for L in (1, 2, 3, 4, 5, 6) for k in (1, 2, 3, 4)]
        adds = [(3, '1m'), (4, '1m'), (5, '1m'), (3, '3m'), (4, '3m')]
    for L, k in fills:
        jobs.append(Job('fill_L%d_k%d' % (L, k), h_fill, {'L': L, 'k': k}))
    for n, tf in adds:
        jobs.append(Job('add_%d_%s' % (n, tf), h_add, {'nadds': n, 'timeframe': tf}))
    for n, tf, pre in ((1, '1m', 19), (1, '1m', 22), (2, '1m', 23), (1, '3m', 25)) if tier == 'quick' else \
            ((1, '1m', 19), (1, '1m', 20), (1, '1m', 21), (1, '1m', 22), (2, '1m', 23), (1, '3m', 25), (2, '1m', 40), (1, '1m', 100)):
        jobs.append(Job('add_%d_%s_pre%d' % (n, tf, pre), h_add, {'nadds': n, 'timeframe': tf, 'prefill': pre}))
    for a, b in ((3, 3), (3, 2), (4, 1)) if tier == 'quick' else ((3, 3), (3, 2), (4, 1), (5, 3), (2, 2), (6, 3)):
        jobs.append(Job('addmulti_%d_%d' % (a, b), h_add_multiple, {'first': a, 'second': b}, {'concretize_int_range': (0, 16)}))
    jobs.append(Job('spacing', h_spacing, {'n': 3}))
    return jobs


def setup(tier, seed):
    from ..engine import jstubs
    jstubs.install_core()
    S.install_monitors()
    jobs = _jobs(tier)
    return {
        'jobs': jobs,
        'budget_s': 600 if tier == 'quick' else 2400,
        'explanation': '_fill_absent_candles on provided candles at symbolic integer minute offsets with symbolic OHLCV (z3: one candle per minute, '
                       'provided kept, missing flat at previous close / first known open, volume 0); CandlesState.add_candle and '
                       'add_multiple_1m_candles with symbolic integer timestamps against a list model (new appended, stored replaced, nothing '
                       'else, strictly increasing); research.backtest with a symbolic distance between the two leading candles.',
        'bounds': {'fill': 'interval length L<=%d, k<=%d provided candles, offsets in [-2, L+1]' % ((5, 3) if tier == 'quick' else (6, 4)),
                   'add': 'up to 5 adds, minute offsets in [1,6], timeframes 1m and 3m'},
        'outside': ['longer intervals / more adds', 'partially overlapping batches in add_multiple_1m_candles (not produced by the simulators)',
                    'provided candles not sorted by time'],
        'stubs': list(jstubs.INSTALLED),
        'assumptions': ['provided candles have strictly increasing timestamps on the minute grid (exchange drivers return them sorted)',
                        'an older candle whose timestamp is not stored may be ignored or rejected (IndexError) as long as the store is unchanged'],
        'must_reach': ['fill-checked', 'add-new', 'add-repeated', 'add-older-unknown', 'batch-new', 'batch-repeated', 'spacing-raised', 'spacing-accepted'],
    }


def signature(v):
    return v['label']


def make_witness(v):
    fn = {'fill': 'h_fill', 'add': 'h_add', 'addmulti': 'h_add_multiple', 'spacing': 'h_spacing'}[v['job'].split('_')[0]]
    return {'fn': fn, 'kwargs': v['bounds'], 'label': v['label'], 'model': v['model'], 'info': v.get('info')}


def replay(w):
    return replay_harness(JOBFN[w['fn']], w['kwargs'], w['model'], w['label'])
