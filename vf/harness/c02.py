"""C02 - resting orders fill exactly when and where the price reaches them (and C08's session part).

The real research.backtest runs on symbolic one-minute candles with strategy templates whose order prices are
symbolic.  A monitor wrapped around the per-minute matching entry point records the active orders, the
normalised candle and the fills; the path model (pathmodel.py) turns them into solver obligations.
"""
import numpy as np

from ..engine import symex as sx
from ..engine.explore import Job
from ..engine.concrete import replay_harness
from . import session as S
from .common import And, Or, Not, Implies
from .pathmodel import minute_obligations, legs, hit

ID = 'C02'
THRESH = 0.00015  # the double jesse uses in helpers.is_price_near


def _template(ctx, kind, side, exch):
    """returns (strategy class, description)"""
    long = side == 'long'
    on_open = exch == 'spot'
    if kind == 'T1':  # entry + stop-loss + take-profit, valid sides
        pe = ctx.real('pe', 50, 200)
        sl = ctx.real('sl', 50, 200)
        tp = ctx.real('tp', 50, 200)
        ctx.constrain(And(sl < pe, pe < tp) if long else And(tp < pe, pe < sl))
        return S.make_template(side=side, entry=pe, stop=sl, take=tp, qty=1.0, on_open_exits=on_open, name='T1',
                               exit_qty_from_position=on_open)
    if kind == 'T1m':  # entry at market
        sl = ctx.real('sl', 50, 200)
        tp = ctx.real('tp', 50, 200)
        ctx.constrain(And(sl < 100, 100 < tp) if long else And(tp < 100, 100 < sl))
        return S.make_template(side=side, entry=None, stop=sl, take=tp, qty=1.0, on_open_exits=on_open, name='T1m',
                               exit_qty_from_position=on_open)
    if kind == 'T2':  # two-point entry ladder + one stop
        p1 = ctx.real('p1', 50, 200)
        p2 = ctx.real('p2', 50, 200)
        sl = ctx.real('sl', 50, 200)
        # the stop stays clear of the market-fill zone around the current price 100: a stop equal to the fill price of a
        # market entry with an oversize quantity makes jesse flip the position back and forth (noted in DESIGN.md, C06)
        ctx.constrain(And(sl < p1, sl < p2, sl < 99.9) if long else And(sl > p1, sl > p2, sl > 100.1))
        return S.make_template(side=side, entry=[(1.0, p1), (1.0, p2)], stop=[(2.0, sl)], qty=2.0,
                               on_open_exits=on_open, name='T2', cancel_entry=False)
    if kind == 'T2x':  # three-point entry ladder, prices in any order and possibly equal, no exits (several fills in one minute)
        ps = [ctx.real('p%d' % i, 50, 200) for i in range(1, 4)]
        return S.make_template(side=side, entry=[(1.0, q) for q in ps], stop=None, take=None, qty=3.0, name='T2x', cancel_entry=False)
    if kind == 'T3':  # take-profit ladder, stop moved after a reduction
        pe = ctx.real('pe', 50, 200)
        sl = ctx.real('sl', 50, 200)
        t1 = ctx.real('t1', 50, 200)
        t2 = ctx.real('t2', 50, 200)
        s2 = ctx.real('s2', 50, 200)
        ctx.constrain(And(sl < pe, pe < t1, pe < t2, s2 < t1, s2 < t2) if long else And(sl > pe, pe > t1, pe > t2, s2 > t1, s2 > t2))
        return S.make_template(side=side, entry=pe, stop=[(2.0, sl)], take=[(1.0, t1), (1.0, t2)], qty=2.0,
                               on_open_exits=on_open, name='T3',
                               reduced_stop=lambda s: [(abs(s.position.qty), s2)])
    if kind == 'T3m':  # entry at market, one stop and an ordered two-row take-profit ladder (three adjacent reduce-only orders)
        sl = ctx.real('sl', 50, 200)
        t1 = ctx.real('t1', 50, 200)
        t2 = ctx.real('t2', 50, 200)
        ctx.constrain(And(sl < 99.7, 100.3 < t1, t1 < t2) if long else And(sl > 100.3, 99.7 > t1, t1 > t2))
        return S.make_template(side=side, entry=None, stop=[(2.0, sl)], take=[(1.0, t1), (1.0, t2)], qty=2.0, name='T3m', reenter=True)
    if kind == 'T4':  # exits declared in on_open_position, take-profit moved in update_position
        pe = ctx.real('pe', 50, 200)
        sl = ctx.real('sl', 50, 200)
        tp = ctx.real('tp', 50, 200)
        tp2 = ctx.real('tp2', 50, 200)
        ctx.constrain(And(sl < pe, pe < tp, pe < tp2) if long else And(sl > pe, pe > tp, pe > tp2))
        return S.make_template(side=side, entry=pe, stop=sl, take=tp, qty=1.0, on_open_exits=True, name='T4',
                               update_take=lambda s: (1.0, tp2) if s.index >= 2 else s.take_profit)
    if kind == 'T8':  # unconstrained sides: wrong-side exits become market orders, flips possible
        pe = ctx.real('pe', 50, 200)
        sl = ctx.real('sl', 50, 200)
        tp = ctx.real('tp', 50, 200)
        ctx.constrain(Not(sl == tp))  # jesse rejects identical stop-loss and take-profit declarations (InvalidStrategy)
        return S.make_template(side=side, entry=pe, stop=sl, take=tp, qty=1.0, on_open_exits=on_open, name='T8')
    raise ValueError(kind)


def h_session(ctx, n=3, kind='T1', side='long', exch='futures', fast=False, tf='1m', sym_from=1, c08_only=False, sym=None, gaps=()):
    rows = S.sparse_rows(ctx, n, sym, gaps=list(gaps)) if sym is not None else S.minute_rows(ctx, n, sym_from=sym_from)
    T = _template(ctx, kind, side, exch)
    cfg = S.config_dict(exchange_type=exch, leverage=2, fee=0.001, balance=10000.0)
    rec = S.run_session(S.make_candles(rows), T, cfg, timeframe=tf, fast=fast)
    rec.refs['input_rows'] = rows
    check_session(ctx, rec, fast=fast)
    return None


def check_session(ctx, rec, fast=False, tag=''):
    total_fills = 0
    for mi, m in enumerate(rec.minutes):
        # (e) pending market orders must have been flushed before the next matching call
        ctx.prove(len(m['pending_market']) == 0, 'C02e:market-order-flushed-before-next-candle')
        if m['mode'] == 'step':
            rows = rec.refs.get('input_rows')
            if rows is not None:
                # the minute the matching works on is the INPUT candle with the documented gap normalisation only (open := previous
                # close, high/low widened to it): the price path of the minute is defined on it, not on what the code handed over
                c = m['candle']
                i = int(round((c[0] - S.T0) / S.MIN))
                if 0 <= i < len(rows):
                    r = rows[i]
                    if i == 0:
                        eo, eh, el = r[1], r[3], r[4]
                    else:
                        pc = rows[i - 1][2]
                        eo = pc
                        eh = sx.smax(r[3], pc) if (sx.is_sym(r[3]) or sx.is_sym(pc)) else max(r[3], pc)
                        el = sx.smin(r[4], pc) if (sx.is_sym(r[4]) or sx.is_sym(pc)) else min(r[4], pc)
                    ctx.prove(And(ctx.equal(c[1], eo), ctx.equal(c[2], r[2]), ctx.equal(c[3], eh), ctx.equal(c[4], el)),
                              'C02:simulated-minute-is-the-input-candle-with-the-documented-gap-normalisation', {'minute': i})
            total_fills += minute_obligations(ctx, rec, m, tag)
        else:
            total_fills += chunk_obligations(ctx, rec, m, tag)
    # (e) market fill price within the routing threshold of the current price at submission
    for od in rec.orders:
        info = rec.order_info[id(od)]
        if od.type != 'MARKET' or info.get('liquidation') or not info.get('accepted'):
            continue
        cur = info['price_at_submit']
        if cur is None:
            continue
        ctx.event('market-order' + tag)
        if od.is_executed:
            f = od.price
            ctx.prove(sx.sabs(cur - f) <= THRESH * sx.sabs(cur) if (sx.is_sym(cur) or sx.is_sym(f)) else abs(cur - f) <= THRESH * abs(cur) * (1 + 1e-12),
                      'C02e:market-fill-at-current-price')
            ctx.prove(info.get('fill_time') is not None, 'C02e:market-order-executed')
        else:
            ctx.prove(od.is_canceled, 'C02e:market-order-executed')
    ctx.event('session' + tag)
    return total_fills


def chunk_obligations(ctx, rec, m, tag=''):
    """fast mode: (a),(d) per fill; at the end of the chunk nothing that was active at chunk start (or created in the chunk)
    and is still active lies inside the range of the minutes it has seen"""
    cs = m['candles']
    lo_all = cs[0][4]
    hi_all = cs[0][3]
    for i in range(1, len(cs)):
        lo_all = sx.smin(lo_all, cs[i][4]) if (sx.is_sym(lo_all) or sx.is_sym(cs[i][4])) else min(lo_all, cs[i][4])
        hi_all = sx.smax(hi_all, cs[i][3]) if (sx.is_sym(hi_all) or sx.is_sym(cs[i][3])) else max(hi_all, cs[i][3])
    nfill = 0
    created = set()
    active = [x for x in m['active_before'] if x.type != 'MARKET']
    for kind, od in m['events']:
        info = rec.order_info.get(id(od), {})
        if kind == 'submit':
            if info.get('accepted'):
                created.add(id(od))
                if od.type == 'MARKET':
                    ctx.event('market-order-created-inside-chunk' + tag)
            continue
        if kind == 'cancel':
            active = [x for x in active if x is not od]
            continue
        nfill += 1
        if od.type != 'MARKET':
            ctx.event('resting-fill-fast' + tag)
            p = od.price
            ctx.prove(And(od.price == info['price0'], od.qty == info['qty0']), 'C02a:own-price-and-qty')
            ctx.prove(And(lo_all <= p, p <= hi_all), 'C02a:price-inside-chunk-range')
            ctx.prove(info.get('cancel_time') is None and info['created_time'] <= info['fill_time'],
                      'C02d:fill-after-submit-before-cancel')
        active = [x for x in active if x is not od]
    for a in active:
        if not any(a is x for x in m['active_after']):
            continue
        ctx.event('order-survives-chunk' + tag)
        p = a.price
        ctx.prove(Not(And(lo_all <= p, p <= hi_all)), 'C02c:no-active-order-left-inside-chunk-range',
                  {'order': rec.order_info.get(id(a), {}).get('seq'), 'fills_in_chunk': nfill})
    # reaction orders (created by hooks during the chunk): against the minutes of the chunk strictly after their creation
    for kind, od in m['events']:
        if kind != 'submit' or od.type == 'MARKET' or not rec.order_info[id(od)].get('accepted'):
            continue
        if not any(od is x for x in m['active_after']):
            continue
        info = rec.order_info[id(od)]
        ct = info['created_time']
        later = [i for i in range(len(cs)) if cs[i][0] >= ct]  # minutes that open at or after the creation time
        if not later:
            continue
        lo2 = hi2 = None
        for i in later:
            l_i, h_i = cs[i][4], cs[i][3]
            if i > 0:  # each minute's range is extended to the previous close
                pc = cs[i - 1][2]
                l_i = sx.smin(l_i, pc) if (sx.is_sym(l_i) or sx.is_sym(pc)) else min(l_i, pc)
                h_i = sx.smax(h_i, pc) if (sx.is_sym(h_i) or sx.is_sym(pc)) else max(h_i, pc)
            lo2 = l_i if lo2 is None else (sx.smin(lo2, l_i) if (sx.is_sym(lo2) or sx.is_sym(l_i)) else min(lo2, l_i))
            hi2 = h_i if hi2 is None else (sx.smax(hi2, h_i) if (sx.is_sym(hi2) or sx.is_sym(h_i)) else max(hi2, h_i))
        ctx.event('reaction-order-survives-chunk' + tag)
        p = od.price
        ctx.prove(Not(And(lo2 <= p, p <= hi2)), 'C02c:no-reaction-order-left-inside-later-minutes-of-chunk',
                  {'order': info.get('seq'), 'later_minutes': len(later)})
    # market orders created by hooks inside the chunk must not wait for later minutes of the chunk
    for kind, od in m['events']:
        if kind == 'submit' and od.type == 'MARKET' and rec.order_info[id(od)].get('accepted'):
            info = rec.order_info[id(od)]
            last_minute_open = cs[-1][0]
            # created while store.app.time pointed into an earlier minute of the chunk and not filled by the matching loop
            filled_in_loop = any(k == 'fill' and o is od for k, o in m['events'])
            if not od.is_executed:
                continue  # cancelled (e.g. the position was closed by another order first)
            ctx.event('market-order-from-hook-inside-chunk' + tag)
            ctx.prove(filled_in_loop or info['created_time'] > last_minute_open,
                      'C02e:market-order-inside-chunk-waits-for-later-candles')
    return nfill


JOBFN = {'h_session': h_session}


def _jobs(tier):
    jobs = []

    def add(**kw):
        nm = 'sess_' + '_'.join(('%s' % (v,)).replace(' ', '') for v in kw.values())
        jobs.append(Job(nm, h_session, kw, {'max_decisions': 4000}))
    if tier == 'quick':
        add(n=3, kind='T1', side='long', exch='futures')
        add(n=3, kind='T1', side='short', exch='futures')
        add(n=3, kind='T2', side='long', exch='futures', sym_from=2)
        add(n=3, kind='T1', side='long', exch='spot')
        add(n=6, kind='T8', side='long', exch='futures', fast=True, tf='3m', sym=[1, 4])
        add(n=6, kind='T1', side='long', exch='futures', fast=True, tf='3m', sym=[3, 4])  # two symbolic minutes inside one chunk
    else:
        for side in ('long', 'short'):
            for kind in ('T1', 'T1m', 'T8'):
                add(n=3, kind=kind, side=side, exch='futures')
        add(n=3, kind='T2', side='long', exch='futures')
        add(n=3, kind='T2', side='short', exch='futures', sym_from=2)
        add(n=3, kind='T3', side='long', exch='futures', sym_from=2)
        add(n=3, kind='T3', side='short', exch='futures', sym_from=2)
        add(n=3, kind='T4', side='short', exch='futures')
        for kind in ('T1', 'T1m'):
            add(n=3, kind=kind, side='long', exch='spot')
        add(n=4, kind='T1m', side='short', exch='futures')
        # fast mode, 3m route, two chunks: one or two symbolic minutes per chunk, the others flat at the previous close
        add(n=6, kind='T1', side='long', exch='futures', fast=True, tf='3m', sym=[1, 4])
        add(n=6, kind='T1', side='short', exch='futures', fast=True, tf='3m', sym=[2, 3])
        add(n=6, kind='T8', side='long', exch='futures', fast=True, tf='3m', sym=[1, 4])
        add(n=6, kind='T1', side='long', exch='futures', fast=True, tf='3m', sym=[3, 4])
        add(n=6, kind='T1', side='long', exch='futures', fast=True, tf='3m', sym=[4], gaps=[4])
        add(n=6, kind='T1', side='short', exch='futures', fast=True, tf='3m', sym=[5], gaps=[5])
        add(n=6, kind='T3', side='short', exch='futures', fast=True, tf='3m', sym=[4])
    return jobs


def setup(tier, seed):
    from ..engine import jstubs
    jstubs.install_core()
    S.install_monitors()
    spec = {
        'jobs': _jobs(tier),
        'budget_s': 780 if tier == 'quick' else 3300,
        'explanation': 'jesse.research.backtest (real _step_simulator/_skip_simulator, Strategy, Broker, Order, Position, exchanges, '
                       'candle store) is executed on symbolic one-minute candles with strategy templates whose order prices are '
                       'symbolic; per minute the recorded fills/active orders are checked against the path model by solver queries: '
                       '(a) fill at own price/qty inside the minute range, (b) earliest hit fills first, (c) no active order left whose '
                       'price the remaining path reaches, (d) no fill before submission/after cancellation, (e) market orders flushed '
                       'before the next candle at the current price (within the 0.015% routing threshold).',
        'bounds': {'templates': sorted({j.kwargs['kind'] for j in _jobs(tier)}), 'candles': 'first candle flat at 100, then 2 (n=3) or 3 (n=4) symbolic candles, OHLC in [50,200]',
                   'quantities': 'concrete (1, 2)', 'fee': 0.001, 'leverage': 2},
        'outside': ['sessions longer than %d symbolic candles' % (2 if tier == 'quick' else 3), 'strategies outside the templates',
                    'float rounding (reals)', 'more than one trading route'],
        'stubs': list(jstubs.INSTALLED),
        'assumptions': ['floats modelled as reals', 'MARKET fill price accepted within the routing threshold of the current price at submission (DESIGN C02 reading)',
                        'z3 trusted'],
        'must_reach': ['C02a:own-price-and-qty', 'C08:earliest-hit-fills-first', 'C02c:no-active-order-left-inside-range',
                       'C02e:market-fill-at-current-price', 'resting-fill', 'fill-LIMIT', 'fill-STOP', 'reaction-order-fill',
                       'order-survives-minute', 'minute-with-2-fills'],
    }
    return spec


def signature(v):
    b = v.get('bounds', {})
    return '%s|%s' % (v['label'], 'fast' if b.get('fast') else 'step')


def make_witness(v):
    return {'fn': 'h_session', 'kwargs': v['bounds'], 'label': v['label'], 'model': v['model'], 'info': v.get('info')}


def replay(w):
    S.install_monitors()
    return replay_harness(JOBFN[w['fn']], w['kwargs'], w['model'], w['label'])
