"""C09 - isolated-margin liquidation happens exactly at the liquidation price."""
import numpy as np

from ..engine import symex as sx
from ..engine.explore import Job
from ..engine.concrete import replay_harness
from . import session as S
from .apih import ApiSession
from .common import And, Or, Not, Implies, close_to

ID = 'C09'


def h_formula(ctx, lev_lo=2, lev_hi=125):
    """Position.liquidation_price / bankruptcy_price with a symbolic entry price, every integer leverage in the range"""
    e = ctx.real('entry', 0.000001, 1000000)
    for L in range(lev_lo, lev_hi + 1):
        cfg = S.config_dict('futures', leverage=L, mode='isolated', fee=0.0, balance=10000.0)
        api = ApiSession(cfg, symbols=(S.SYMBOL,), price0=100.0)
        p = api.positions[S.SYMBOL]
        for sign in (1.0, -1.0):
            p.qty = sign
            p.entry_price = e
            p.current_price = e
            liq, bk = p.liquidation_price, p.bankruptcy_price
            if sign > 0:
                ctx.prove(And(bk < liq, liq < e), 'C09:liquidation-strictly-between-entry-and-bankruptcy', {'leverage': L, 'side': 'long'})
            else:
                ctx.prove(And(e < liq, liq < bk), 'C09:liquidation-strictly-between-entry-and-bankruptcy', {'leverage': L, 'side': 'short'})
        p.qty = 0
        ctx.event('leverage-checked')


def h_session(ctx, n=3, leverage=10, mode='isolated', exch='futures', side='long', stop=True, kind='T1m', fast=False, tf='1m',
              sym_from=1):
    long = side == 'long'
    rows = S.minute_rows(ctx, n, sym_from=sym_from, lo=20, hi=400)
    on_open = exch == 'spot'
    if kind == 'T1m':
        sl = None
        if stop:
            sl = ctx.real('sl', 20, 400)
            ctx.constrain(sl < 99.9 if long else sl > 100.1)
        T = S.make_template(side=side, entry=None, stop=sl, take=None, qty=1.0, on_open_exits=on_open,
                            exit_qty_from_position=on_open, name='T1m')
    elif kind == 'T3p':  # partial take-profit: a fill in the same minute leaves the position open
        tp = ctx.real('tp', 20, 400)
        ctx.constrain(tp > 100.1 if long else tp < 99.9)
        T = S.make_template(side=side, entry=None, stop=None, take=[(1.0, tp)], qty=2.0, name='T3p')
    else:  # T2: averaged entry (market + resting second point)
        p2 = ctx.real('p2', 20, 400)
        T = S.make_template(side=side, entry=[(1.0, 100.0), (1.0, p2)], stop=None, qty=2.0, name='T2', cancel_entry=False)
    cfg = S.config_dict(exchange_type=exch, leverage=leverage, mode=mode, fee=0.001, balance=10000.0)
    rec = S.run_session(S.make_candles(rows), T, cfg, timeframe=tf, fast=fast)
    check_liquidations(ctx, rec, leverage, mode, exch)


def check_liquidations(ctx, rec, leverage, mode, exch):
    for pre in rec.liq:
        post = pre['post']
        forced = post['total_liq'] != pre['total_liq']
        mc = pre.get('minute_candle')
        cnd = mc if mc is not None else pre['candle']
        if exch == 'spot' or mode != 'isolated' or not pre['is_open']:
            ctx.prove(not forced and post['n_orders'] == pre['n_orders'], 'C09:no-forced-close-when-not-isolated-or-not-open',
                      {'mode': mode, 'open': pre['is_open']})
            ctx.event('no-liquidation-expected')
            continue
        liq = pre['liq_price']
        contains = And(cnd[4] <= liq, liq <= cnd[3])
        ctx.prove(contains if forced else Not(contains), 'C09:force-closed-iff-range-contains-liquidation-price',
                  {'forced': forced})
        if not forced:
            ctx.prove(post['n_orders'] == pre['n_orders'] and post['n_fills'] == pre['n_fills'], 'C09:no-order-without-liquidation')
            ctx.event('open-position-not-liquidated')
            continue
        ctx.event('liquidated')
        ctx.prove(post['total_liq'] == pre['total_liq'] + 1 and post['n_orders'] == pre['n_orders'] + 1
                  and post['n_fills'] == pre['n_fills'] + 1, 'C09:counted-once-with-one-closing-order')
        od = rec.orders[pre['n_orders']]
        closing_side = 'sell' if pre['type'] == 'long' else 'buy'
        ctx.prove(od.type == 'MARKET' and od.reduce_only is True and od.side == closing_side and od.is_executed,
                  'C09:closing-order-is-reduce-only-market-on-closing-side')
        ctx.prove(And(ctx.equal(od.price, pre['bankruptcy']), ctx.equal(od.qty, -pre['qty'])), 'C09:closing-fill-at-bankruptcy-price')
        # entry value / leverage lost, plus the fee of the closing fill
        absq = sx.sabs(pre['qty']) if sx.is_sym(pre['qty']) else abs(pre['qty'])
        expected = pre['wallet'] - pre['entry'] * absq / leverage - absq * pre['bankruptcy'] * pre['fee']
        # 1/leverage and (1 - 1/leverage) are binary64 constants in the code: compare within 1e-9 of the entry value
        ctx.prove(close_to(post['wallet'], expected, pre['entry'] * absq + 1.0), 'C09:loses-initial-margin-plus-fees')
        ctx.prove(Not(post['is_open']) if not isinstance(post['is_open'], bool) else not post['is_open'], 'C09:position-closed-after-liquidation')
        ctx.prove(len(post['active']) == 0, 'C09:resting-orders-cancelled-after-liquidation')
    # liquidation never happens outside the per-minute check
    app = rec.refs.get('app')
    if app is not None:
        n_forced = sum(1 for pre in rec.liq if pre['post']['total_liq'] != pre['total_liq'])
        ctx.prove(app.total_liquidations == n_forced, 'C09:total-liquidations-counter')
    ctx.event('session')


JOBFN = {'h_formula': h_formula, 'h_session': h_session}


def _jobs(tier):
    jobs = [Job('formula_2_125', h_formula, {'lev_lo': 2, 'lev_hi': 125})]

    def add(**kw):
        jobs.append(Job('sess_' + '_'.join(str(v) for v in kw.values()), h_session, kw, {'max_decisions': 4000}))
    if tier == 'quick':
        add(n=3, leverage=10, mode='isolated', exch='futures', side='long', stop=True)
        add(n=3, leverage=10, mode='isolated', exch='futures', side='short', stop=True)
        add(n=3, leverage=3, mode='isolated', exch='futures', side='long', stop=False)
        add(n=3, leverage=50, mode='isolated', exch='futures', side='short', stop=False)
        add(n=3, leverage=10, mode='cross', exch='futures', side='long', stop=False)
        add(n=3, leverage=1, mode='isolated', exch='spot', side='long', stop=False)
        add(n=3, leverage=5, mode='isolated', exch='futures', side='long', stop=False, kind='T2')
        add(n=3, leverage=10, mode='isolated', exch='futures', side='long', stop=False, kind='T3p')
        add(n=6, leverage=10, mode='isolated', exch='futures', side='long', stop=False, fast=True, tf='3m', sym_from=4)  # fast-mode chunk
    else:
        for L in (2, 3, 5, 10, 20, 50, 100, 125):
            for side in ('long', 'short'):
                for stop in (True, False):
                    add(n=3, leverage=L, mode='isolated', exch='futures', side=side, stop=stop)
        for L in (2, 10, 125):
            add(n=3, leverage=L, mode='cross', exch='futures', side='long', stop=False)
            add(n=3, leverage=L, mode='cross', exch='futures', side='short', stop=True)
        add(n=3, leverage=1, mode='isolated', exch='spot', side='long', stop=False)
        add(n=3, leverage=1, mode='isolated', exch='spot', side='long', stop=True)
        for L in (2, 5, 20):
            add(n=3, leverage=L, mode='isolated', exch='futures', side='long', stop=False, kind='T2')
            add(n=3, leverage=L, mode='isolated', exch='futures', side='short', stop=False, kind='T2')
            add(n=3, leverage=L, mode='isolated', exch='futures', side='long', stop=False, kind='T3p')
            add(n=3, leverage=L, mode='isolated', exch='futures', side='short', stop=False, kind='T3p')
        add(n=4, leverage=10, mode='isolated', exch='futures', side='long', stop=True)
        add(n=6, leverage=10, mode='isolated', exch='futures', side='long', stop=False, fast=True, tf='3m', sym_from=4)
        add(n=6, leverage=10, mode='isolated', exch='futures', side='short', stop=True, fast=True, tf='3m', sym_from=4)
    return jobs


def setup(tier, seed):
    from ..engine import jstubs
    jstubs.install_core()
    S.install_monitors()
    jobs = _jobs(tier)
    return {
        'jobs': jobs,
        'budget_s': 780 if tier == 'quick' else 3300,
        'explanation': 'formula lemmas: the real Position.liquidation_price/bankruptcy_price with a symbolic entry price for every integer leverage '
                       '2..125, both sides (z3: strictly between entry and bankruptcy price). Sessions: the real simulator on symbolic candles after a '
                       'market entry, isolated/cross/spot; a wrapper around _check_for_liquidations records the state before/after; per minute z3 '
                       'proves: forced close iff position still open after matching and low<=liq<=high; closing order MARKET reduce-only at the '
                       'bankruptcy price; wallet falls by entry*|qty|/leverage plus the closing fee; nothing stays active; never in cross/spot.',
        'bounds': {'leverages': sorted({j.kwargs.get('leverage') for j in jobs if 'leverage' in j.kwargs}), 'candles': '1 concrete + 2 (3) symbolic in [20,400]',
                   'templates': 'market entry qty 1 with/without protective stop; two-point averaged entry'},
        'outside': ['non-integer leverage', 'more than 3 symbolic candles', 'float rounding'],
        'stubs': list(jstubs.INSTALLED),
        'assumptions': ['floats as reals; constants 1/leverage and 0.004 fold in binary64 exactly as in the code'],
        'must_reach': ['liquidated', 'open-position-not-liquidated', 'no-liquidation-expected', 'C09:loses-initial-margin-plus-fees',
                       'C09:liquidation-strictly-between-entry-and-bankruptcy', 'C09:resting-orders-cancelled-after-liquidation'],
    }


def signature(v):
    return v['label']


def make_witness(v):
    fn = 'h_session' if v['job'].startswith('sess_') else 'h_formula'
    return {'fn': fn, 'kwargs': v['bounds'], 'label': v['label'], 'model': v['model'], 'info': v.get('info')}


def replay(w):
    S.install_monitors()
    return replay_harness(JOBFN[w['fn']], w['kwargs'], w['model'], w['label'])
