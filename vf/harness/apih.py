"""H-API: the real store / Order / Position / exchange objects initialised the way _isolated_backtest does it,
driven by bounded operation histories (submit / execute / cancel) with symbolic values."""
import numpy as np

from ..engine import symex as sx
from . import session as S


def passive_strategy():
    Strategy = S.base_strategy()

    class Passive(Strategy):
        def should_long(self):
            return False

        def should_short(self):
            return False

        def go_long(self):
            pass

        def go_short(self):
            pass

        def should_cancel_entry(self):
            return False

        def _rec(self, hook, order):
            rec = S.REC
            if rec is not None:
                rec.hooks.append((self.time, hook, {'order': order, 'qty': self.position.qty}))

        def on_open_position(self, order):
            self._rec('on_open_position', order)

        def on_close_position(self, order):
            self._rec('on_close_position', order)

        def on_increased_position(self, order):
            self._rec('on_increased_position', order)

        def on_reduced_position(self, order):
            self._rec('on_reduced_position', order)

    return Passive


class ApiSession:
    def __init__(self, cfg, symbols=(S.SYMBOL,), price0=100.0, strategy_cls=None):
        from jesse.research.backtest import _format_config
        from jesse.config import config as jc, set_config
        from jesse.routes import router
        from jesse.store import store
        import jesse.helpers as jh
        import jesse.modes.backtest_mode as bm
        jh.CACHED_CONFIG.clear()
        jc['app']['trading_mode'] = 'backtest'
        set_config(_format_config(cfg))
        self.exchange_name = cfg['exchange']
        st = strategy_cls or passive_strategy()
        routes = [{'exchange': self.exchange_name, 'strategy': st, 'symbol': s, 'timeframe': '1m'} for s in symbols]
        router.initiate(routes, [])
        store.candles.init_storage(10)
        store.app.time = S.T0 + S.MIN
        store.app.starting_time = S.T0
        for s in symbols:
            row = np.array([S.T0, price0, price0, price0, price0, 1.0])
            store.candles.add_candle(row, self.exchange_name, s, '1m', with_execution=False, with_generation=False)
        bm._prepare_routes(None)
        self.store = store
        self.symbols = list(symbols)
        self.exchange = store.exchanges.storage[self.exchange_name]
        self.positions = {s: store.positions.storage['%s-%s' % (self.exchange_name, s)] for s in symbols}
        for s in symbols:
            self.positions[s].current_price = price0
        from jesse.services.api import api
        if self.exchange_name not in api.drivers:
            from jesse.exchanges import Sandbox
            api.drivers[self.exchange_name] = Sandbox(self.exchange_name)
        self.driver = api.drivers[self.exchange_name]
        self.orders = []

    def submit(self, symbol, side, typ, qty, price, reduce_only):
        d = self.driver
        if typ == 'MARKET':
            o = d.market_order(symbol, qty, price, side, reduce_only)
        elif typ == 'LIMIT':
            o = d.limit_order(symbol, qty, price, side, reduce_only)
        else:
            o = d.stop_order(symbol, qty, price, side, reduce_only)
        self.orders.append(o)
        return o

    def set_price(self, symbol, p):
        self.positions[symbol].current_price = p

    def tick(self, dt=S.MIN):
        self.store.app.time += dt

    def close(self):
        from jesse.config import reset_config
        reset_config()
        self.store.reset()
