"""C05 - order lifecycle: one terminal transition, idempotent execute/cancel, active registry, one trade per fill."""
import numpy as np

from ..engine import symex as sx
from ..engine.explore import Job
from ..engine.concrete import replay_harness
from . import session as S
from .apih import ApiSession
from .common import And, Or, Not, Implies

ID = 'C05'
SYM = S.SYMBOL


def numeric_state(api):
    """every numeric observable that an operation on a final order must leave unchanged"""
    ex = api.exchange
    st = {}
    for k, v in ex.assets.items():
        st['asset:' + k] = v
    st['available_margin'] = ex.available_margin
    for s in api.symbols:
        p = api.positions[s]
        st['pos_qty:' + s] = p.qty
        st['pos_entry:' + s] = p.entry_price
        base = s.split('-')[0]
        for nm, tab in (('buy_orders', ex.buy_orders[base]), ('sell_orders', ex.sell_orders[base])):
            rows = tab[:]
            st['%s_len:%s' % (nm, s)] = len(rows)
            for i in range(len(rows)):
                st['%s[%d][0]:%s' % (nm, i, s)] = rows[i][0]
                st['%s[%d][1]:%s' % (nm, i, s)] = rows[i][1]
        if hasattr(ex, 'stop_orders_sum'):
            st['stop_sum:' + s] = ex.stop_orders_sum.get(s, 0)
            st['limit_sum:' + s] = ex.limit_orders_sum.get(s, 0)
    ct = api.store.completed_trades
    st['closed_trades'] = len(ct.trades)
    for key, t in ct.tempt_trades.items():
        st['open_trade_orders:' + key] = len(t.orders)
        st['open_trade_buys:' + key] = len(t.buy_orders)
        st['open_trade_sells:' + key] = len(t.sell_orders)
    for i, t in enumerate(ct.trades):
        st['trade%d_orders' % i] = len(t.orders)
    return st


def prove_same(ctx, a, b, label, info):
    ctx.prove(sorted(a.keys()) == sorted(b.keys()), label + ':structure', info)
    conj = True
    for k in a:
        if k in b:
            conj = And(conj, ctx.equal(a[k], b[k]))
    ctx.prove(conj, label, info)


def registry_obligations(ctx, api, tag):
    st = api.store
    for s in api.symbols:
        expect = [o for o in api.orders if o is not None and o.symbol == s and o.status == 'ACTIVE']
        got = [o for o in st.orders.get_active_orders(api.exchange_name, s) if o.is_active]
        ctx.prove(len(got) == len(expect) and all(any(g is e for g in got) for e in expect),
                  'C05:active-orders-are-the-submitted-not-final-ones', {'after': tag})
        ctx.prove(st.orders.count_active_orders(api.exchange_name, s) == len(expect), 'C05:count-active-orders', {'after': tag})
    trades = list(st.completed_trades.trades) + list(st.completed_trades.tempt_trades.values())
    for o in api.orders:
        if o is None:
            continue
        n = sum(1 for t in trades for x in t.orders if x is o)
        ctx.prove(n == (1 if o.is_executed else 0), 'C05:executed-order-in-exactly-one-trade', {'after': tag})


def h_history(ctx, skeleton=(), exch='futures'):
    """ops: ['S', side, type, ro] ['X', k] ['C', k] ['CALL'] ['PM'] ['UA']; X/C on final orders are the repeated calls"""
    from jesse.exceptions import InsufficientBalance, InsufficientMargin
    bal = 10000.0
    fee = ctx.real('fee', 0, 0.01)
    cfg = S.config_dict(exch, leverage=2, fee=fee, balance=bal)
    api = ApiSession(cfg, symbols=(SYM,), price0=100.0)
    hist = {}  # id(order) -> list of statuses seen
    nsub = 0

    def observe(tag):
        for o in api.orders:
            if o is None:
                continue
            h = hist.setdefault(id(o), [])
            if not h or h[-1] != o.status:
                h.append(o.status)
            ok = h in (['ACTIVE'], ['ACTIVE', 'EXECUTED'], ['ACTIVE', 'CANCELED'])
            ctx.prove(ok, 'C05:at-most-one-terminal-transition', {'after': tag, 'history': list(h)})
        registry_obligations(ctx, api, tag)

    for step, op in enumerate(skeleton):
        tag = '%d:%s' % (step, ''.join(str(x) for x in op))
        if op[0] == 'S':
            side, typ, ro = op[1], op[2], bool(op[3])
            if ro and api.positions[SYM].is_close:
                ctx.event('illegal-reduce-only-skipped')
                return
            q = ctx.real('q%d' % nsub, 0.01, 10)
            pr = ctx.real('p%d' % nsub, 50, 200) if typ != 'MARKET' else api.positions[SYM].current_price
            nsub += 1
            try:
                api.submit(SYM, side, typ, q, pr, ro)
            except (InsufficientBalance, InsufficientMargin):
                ctx.event('rejected-submission')
                return
        elif op[0] in ('X', 'C'):
            if op[1] >= len(api.orders):
                return
            o = api.orders[op[1]]
            final = not o.is_active
            before = numeric_state(api) if final else None
            status_before = o.status
            if op[0] == 'X':
                if not final:
                    if o.reduce_only and api.positions[SYM].is_close:
                        ctx.event('illegal-reduce-only-skipped')
                        return
                    api.set_price(SYM, o.price)
                    api.tick()
                o.execute()
            else:
                o.cancel()
            if final:
                ctx.event('repeated-call-on-final-order')
                ctx.prove(o.status == status_before, 'C05:final-order-never-changes', {'after': tag})
                prove_same(ctx, before, numeric_state(api), 'C05:repeated-call-has-no-effect', {'after': tag})
            else:
                ctx.event('terminal-transition-' + o.status)
        elif op[0] == 'CALL':
            api.driver.cancel_all_orders(SYM)
            ctx.event('cancel-all')
        elif op[0] == 'PM':
            api.store.orders.execute_pending_market_orders()
            ctx.event('pending-market-flush')
        elif op[0] == 'UA':
            before = numeric_state(api)
            api.store.orders.update_active_orders(api.exchange_name, SYM)
            prove_same(ctx, before, numeric_state(api), 'C05:update-active-orders-has-no-effect', {'after': tag})
        observe(tag)
    ctx.event('history-complete')


def skeletons(length, exch, max_orders=3, with_ua=True):
    kinds = [['S', 'buy', 'LIMIT', 0], ['S', 'sell', 'LIMIT', 0], ['S', 'buy', 'MARKET', 0], ['S', 'sell', 'STOP', 1]]
    if exch == 'spot':
        kinds = [['S', 'buy', 'LIMIT', 0], ['S', 'buy', 'MARKET', 0], ['S', 'sell', 'LIMIT', 1], ['S', 'sell', 'STOP', 1]]
    out = []

    def rec(prefix, nsub):
        if len(prefix) == length:
            out.append(list(prefix))
            return
        if nsub < max_orders:
            for k in kinds:
                if k[3] and nsub == 0:
                    continue
                if exch == 'spot' and k[1] == 'sell' and nsub == 0:
                    continue
                rec(prefix + [k], nsub + 1)
        for k in range(nsub):
            rec(prefix + [['X', k]], nsub)
            rec(prefix + [['C', k]], nsub)
        if nsub:
            rec(prefix + [['CALL']], nsub)
            if prefix[-1] != ['PM']:
                rec(prefix + [['PM']], nsub)
            if with_ua and prefix[-1] != ['UA']:
                rec(prefix + [['UA']], nsub)

    rec([], 0)
    return out


def h_session(ctx, n=3, kind='T1', side='long', exch='futures', sym=None, mode='cross'):
    """lifecycle invariants on every order produced by a backtest run (shares C02's session harness)"""
    from . import c02
    rows = S.sparse_rows(ctx, n, list(sym)) if sym is not None else S.minute_rows(ctx, n, sym_from=1)
    T = c02._template(ctx, kind, side, exch)
    cfg = S.config_dict(exchange_type=exch, leverage=2, mode=mode, fee=0.001, balance=10000.0)
    rec = S.run_session(S.make_candles(rows), T, cfg)
    if any(pre['post']['total_liq'] != pre['total_liq'] for pre in rec.liq):
        ctx.event('session-with-liquidation')  # the simulator's own forced-close order goes through the same lifecycle
    session_lifecycle(ctx, rec)


def session_lifecycle(ctx, rec):
    nev = {}
    for kind, t, pl in rec.events:
        if kind in ('fill', 'cancel'):
            nev.setdefault(id(pl['order']), []).append(kind)
    trades = list(rec.refs['trades']) + list(rec.refs['completed'].tempt_trades.values())
    for o in rec.orders:
        info = rec.order_info[id(o)]
        if not info.get('accepted'):
            continue
        evs = nev.get(id(o), [])
        ctx.prove(len(evs) <= 1, 'C05:at-most-one-terminal-transition', {'order': info['seq'], 'events': evs})
        want = {'fill': 'EXECUTED', 'cancel': 'CANCELED'}.get(evs[0] if evs else None, 'ACTIVE')
        ctx.prove(o.status == want, 'C05:final-order-never-changes', {'order': info['seq'], 'status': o.status, 'events': evs})
        nt = sum(1 for t in trades for x in t.orders if x is o)
        ctx.prove(nt == (1 if o.is_executed else 0), 'C05:executed-order-in-exactly-one-trade', {'order': info['seq']})
        ctx.event('session-order-checked')
    # active registry at every strategy step (recorded in before() and after()): the orders reported as active are exactly
    # the accepted orders that had no fill/cancel event yet
    for hi, (t, hook, pl) in enumerate(rec.hooks):
        if hook not in ('before', 'after'):
            continue
        final = set(id(pl2['order']) for (k2, t2, pl2) in rec.events[:pl['n_events']] if k2 in ('fill', 'cancel'))
        not_final = [o for o in rec.orders if rec.order_info[id(o)].get('accepted') and rec.order_info[id(o)]['n_hooks'] <= hi
                     and id(o) not in final]
        active = pl['active']
        same = len(active) == len(not_final) and all(any(a is o for a in active) for o in not_final)
        ctx.prove(same, 'C05:active-registry-is-submitted-not-final', {'hook': hook, 'index': pl['index'],
                                                                     'reported': [rec.order_info[id(a)]['seq'] for a in active],
                                                                     'not_final': [rec.order_info[id(o)]['seq'] for o in not_final]})
        ctx.event('session-step-checked')
    ctx.event('session')


JOBFN = {'h_history': h_history, 'h_session': h_session}


def _name(s):
    return '.'.join(''.join(str(x)[0] if isinstance(x, str) else str(x) for x in op) for op in s)


def _jobs(tier):
    jobs = []
    lens = (2, 3, 4) if tier == 'quick' else (2, 3, 4, 5)
    for exch in ('futures', 'spot'):
        for n in lens:
            for s in skeletons(n, exch, max_orders=3 if n <= 4 else 1):
                # keep histories that contain at least one call on an order or a bulk operation
                if not any(op[0] != 'S' for op in s):
                    continue
                jobs.append(Job('%s_%s' % (exch[0], _name(s)), h_history, {'skeleton': s, 'exch': exch}))
    for kw in ([dict(n=3, kind='T1', side='long', exch='futures'), dict(n=3, kind='T3m', side='long', exch='futures', sym=[1]),
                dict(n=3, kind='T1m', side='long', exch='futures', sym=[1, 2], mode='isolated')] if tier == 'quick' else
               [dict(n=3, kind=k, side=sd, exch='futures') for k in ('T1', 'T8') for sd in ('long', 'short')] +
               [dict(n=3, kind='T1', side='long', exch='spot'), dict(n=3, kind='T3m', side='long', exch='futures', sym=[1]), dict(n=3, kind='T3m', side='short', exch='futures', sym=[1]), dict(n=4, kind='T3m', side='long', exch='futures', sym=[1, 2]),
                dict(n=3, kind='T1m', side='long', exch='futures', sym=[1, 2], mode='isolated'), dict(n=3, kind='T1m', side='short', exch='futures', sym=[1, 2], mode='isolated')]):
        jobs.append(Job('sess_' + '_'.join(str(v) for v in kw.values()), h_session, kw))
    return jobs


def setup(tier, seed):
    from ..engine import jstubs
    jstubs.install_core()
    S.install_monitors()
    jobs = _jobs(tier)
    return {
        'jobs': jobs,
        'budget_s': 780 if tier == 'quick' else 3300,
        'explanation': 'all operation skeletons up to the stated length over {submit, execute, cancel, repeated execute/cancel, cancel-all, '
                       'pending-market flush, update_active_orders} on up to 3 real orders (spot and futures, passive strategy attached) with '
                       'symbolic quantities, prices and fee: status history of every order is checked after every operation, a call on a final '
                       'order must leave every balance/position/margin-table/trade-table observable provably equal (z3), the active registry '
                       'must equal the submitted-not-final set and every executed order must be in exactly one trade; the same lifecycle '
                       'invariants are asserted for every order of symbolic backtest sessions.',
        'bounds': {'skeleton_length': '2-4 with up to 3 orders (quick); thorough adds length 5 on a single order', 'orders': 3, 'skeletons': len(jobs)},
        'outside': ['more than 3 orders / longer histories', 'live-mode statuses (queued, partially filled)'],
        'stubs': list(jstubs.INSTALLED),
        'assumptions': ['floats as reals'],
        'must_reach': ['C05:repeated-call-has-no-effect', 'C05:final-order-never-changes', 'C05:executed-order-in-exactly-one-trade',
                       'repeated-call-on-final-order', 'cancel-all', 'pending-market-flush', 'session-order-checked', 'session-step-checked', 'session-with-liquidation',
                       'C05:active-registry-is-submitted-not-final'],
    }


def signature(v):
    return v['label']


def make_witness(v):
    fn = 'h_session' if v['job'].startswith('sess_') else 'h_history'
    return {'fn': fn, 'kwargs': v['bounds'], 'label': v['label'], 'model': v['model'], 'info': v.get('info')}


def replay(w):
    S.install_monitors()
    return replay_harness(JOBFN[w['fn']], w['kwargs'], w['model'], w['label'])
