"""C01 - backtest decisions never depend on future candles (H-2RUN product: same prefix, different tail)."""
import numpy as np

from ..engine import symex as sx
from ..engine.explore import Job
from ..engine.concrete import replay_harness
from . import session as S
from .common import And, Or, Not, Implies, sym_candle
from .c07 import TFMIN

ID = 'C01'


def _template(ctx, kind, side, exch, tfs, other=None):
    long = side == 'long'
    on_open = exch == 'spot'
    common = dict(side=side, qty=1.0, on_open_exits=on_open, exit_qty_from_position=on_open, record_candles=True)
    if kind == 'T1':
        pe = ctx.real('pe', 50, 200)
        sl = ctx.real('sl', 50, 200)
        ctx.constrain(sl < pe if long else sl > pe)
        T = S.make_template(entry=pe, stop=sl, take=None, name='T1', **common)
    elif kind == 'T1tp':
        pe = ctx.real('pe', 50, 200)
        sl = ctx.real('sl', 50, 200)
        tp = ctx.real('tp', 50, 200)
        ctx.constrain(And(sl < pe, pe < tp) if long else And(sl > pe, pe > tp))
        T = S.make_template(entry=pe, stop=sl, take=tp, name='T1tp', **common)
    elif kind == 'T1mtp':  # entry at market; stop-loss and take-profit both rest from the next minute on (two fillable orders in one minute)
        sl = ctx.real('sl', 50, 200)
        tp = ctx.real('tp', 50, 200)
        ctx.constrain(And(sl < 99.5, tp > 100.5) if long else And(sl > 100.5, tp < 99.5))
        T = S.make_template(entry=None, stop=sl, take=tp, name='T1mtp', **common)
    elif kind == 'T7':  # the entry decision depends on visible data
        sl = ctx.real('sl', 50, 200)
        ctx.constrain(sl < 60 if long else sl > 190)
        T = S.make_template(entry=None, stop=sl, take=None, name='T7', **common)
        base_long, base_short = T.should_long, T.should_short

        def cond(self):
            c = self.candles
            return bool(self.close > self.open) and (len(c) < 2 or bool(c[-2][3] >= c[-2][4]))
        T.should_long = lambda self: base_long(self) and cond(self)
        T.should_short = lambda self: base_short(self) and cond(self)
    elif kind == 'T5':
        T = S.make_template(entry=None, stop=None, take=None, name='T5', liquidate_at=1, **common)
    else:
        raise ValueError(kind)
    # also read every route timeframe at every step
    base_before = T.before

    def before(self):
        base_before(self)
        rec = S.REC
        if rec is not None:
            extra = {}
            for tf in tfs:
                extra[tf] = self.get_candles(self.exchange, self.symbol, tf)
            if other is not None:  # a second symbol that is only a data route
                extra['%s-1m' % other] = self.get_candles(self.exchange, other, '1m')
            rec.hooks[-1][2]['tfs'] = extra
    T.before = before
    return T


def last_rows(a, k=2):
    if a is None:
        return None
    n = len(a)
    return [list(a[i]) for i in range(max(0, n - k), n)]


def trace(rec, cutoff):
    """observable prefix: hook records and order events with time <= cutoff"""
    hooks = []
    for (t, h, pl) in rec.hooks:
        if t > cutoff:
            continue
        ent = {'time': t, 'hook': h}
        snap = pl.get('snap', {})
        ent['vals'] = [snap.get(k) for k in ('qty', 'entry', 'balance', 'margin', 'price')]
        ent['type'] = snap.get('type')
        cs = pl.get('candles')
        ent['ncandles'] = None if cs is None else len(cs)
        ent['rows'] = last_rows(cs)
        ent['tfs'] = {tf: (len(a), last_rows(a)) for tf, a in (pl.get('tfs') or {}).items()}
        ent['answer'] = pl.get('answer')
        hooks.append(ent)
    events = []
    for (kind, t, pl) in rec.events:
        if t > cutoff:
            continue
        od = pl['order']
        info = rec.order_info[id(od)]
        events.append({'time': t, 'kind': kind, 'side': od.side, 'type': info.get('type0', od.type), 'reduce_only': od.reduce_only,
                       'vals': [info.get('qty0'), info.get('price0')], 'seq': info['seq']})
    return hooks, events


def eq_rows(ctx, ra, rb):
    if ra is None or rb is None:
        return ra is None and rb is None
    if len(ra) != len(rb):
        return False
    c = True
    for x, y in zip(ra, rb):
        for j in range(6):
            c = And(c, ctx.equal(x[j], y[j]))
    return c


def h_two(ctx, n=3, t=2, kind='T1', side='long', exch='futures', tf='1m', data=(), fast=False, warm=0, sym=None, two_symbols=False):
    tfs = sorted(set([tf] + list(data)), key=lambda x: TFMIN[x])
    # run A: symbolic prefix X[:t], then a flat tail at the last prefix close (no new symbols).  run B: the same prefix, then an
    # arbitrary symbolic tail Y[t:].  prefix(A) == prefix(B) for every Y gives, by transitivity, equality for any two tails.
    def flat_tail(rows, start):
        prev = rows[start - 1][2]
        out = []
        for i in range(start, n):
            out.append([S.T0 + i * S.MIN, prev, prev, prev, prev, 10.0])
        return out
    if sym is None:
        pre = S.minute_rows(ctx, t, sym_from=1, name='x')
        rows_a = pre + flat_tail(pre, t)
        rows_b = [list(r) for r in pre] + S.minute_rows(ctx, n, sym_from=0, name='y')[t:]
    else:
        pre = S.sparse_rows(ctx, t, [i for i in sym if i < t], name='x')
        rows_a = pre + flat_tail(pre, t)
        rows_b = [list(r) for r in pre]
        prev = pre[t - 1][2]
        for i in range(t, n):
            ts = S.T0 + i * S.MIN
            if i in sym:
                r = list(sym_candle(ctx, 'y%d' % i, ts))
            else:
                r = [ts, prev, prev, prev, prev, 10.0]
            rows_b.append(r)
            prev = r[2]
    data_only = two_symbols == 'data'
    T = _template(ctx, kind, side, exch, tfs, other='ETH-USDT' if data_only else None)
    cfg = S.config_dict(exch, leverage=2, fee=0.001, balance=10000.0, warm_up=warm)
    droutes = [(S.SYMBOL, x) for x in data] + ([('ETH-USDT', '1m')] if data_only else [])
    warmup = None
    if warm:
        wr = [S.flat_row(S.T0 - (warm - i) * S.MIN, 100.0) for i in range(warm)]
        warmup = {'%s-%s' % (S.EXCHANGE, S.SYMBOL): {'exchange': S.EXCHANGE, 'symbol': S.SYMBOL, 'candles': S.make_candles(wr).astype(float)}}
    extra_a = extra_b = None
    if two_symbols:
        from .apih import passive_strategy
        P = passive_strategy()
        pre2 = S.minute_rows(ctx, t, sym_from=max(1, t - 1), name='z', first_price=30.0, lo=10, hi=60)
        r2a = pre2 + [[S.T0 + i * S.MIN, pre2[-1][2], pre2[-1][2], pre2[-1][2], pre2[-1][2], 10.0] for i in range(t, n)]
        r2b = [list(r) for r in pre2] + S.minute_rows(ctx, n, sym_from=max(t, n - 1), name='w', first_price=30.0, lo=10, hi=60)[t:]
        extra_a = [('ETH-USDT', S.make_candles(r2a), None if data_only else P, '1m')]
        extra_b = [('ETH-USDT', S.make_candles(r2b), None if data_only else P, '1m')]
        if warm:
            warmup['%s-%s' % (S.EXCHANGE, 'ETH-USDT')] = {'exchange': S.EXCHANGE, 'symbol': 'ETH-USDT', 'candles': S.make_candles(wr).astype(float)}
    rec_a = S.run_session(S.make_candles(rows_a), T, cfg, timeframe=tf, data_routes=droutes, fast=fast, warmup=warmup, extra=extra_a)
    rec_b = S.run_session(S.make_candles(rows_b), T, cfg, timeframe=tf, data_routes=droutes, fast=fast, warmup=warmup, extra=extra_b)
    cutoff = S.T0 + t * S.MIN
    ha, ea = trace(rec_a, cutoff)
    hb, eb = trace(rec_b, cutoff)
    ok = ctx.prove(len(ha) == len(hb) and all(a['hook'] == b['hook'] and a['time'] == b['time'] for a, b in zip(ha, hb)),
                   'C01:same-hook-invocations-in-prefix', {'a': [x['hook'] for x in ha], 'b': [x['hook'] for x in hb]})
    if ok:
        for a, b in zip(ha, hb):
            ctx.event('prefix-hook-compared')
            c = a['type'] == b['type'] and a['ncandles'] == b['ncandles'] and a['answer'] == b['answer']
            c = And(c, *[ctx.equal(x, y) for x, y in zip(a['vals'], b['vals'])])
            ctx.prove(c, 'C01:same-position-and-balance-values-in-prefix', {'hook': a['hook'], 'time': a['time']})
            c = eq_rows(ctx, a['rows'], b['rows'])
            for tfk in a['tfs']:
                la, ra = a['tfs'][tfk]
                lb, rb = b['tfs'].get(tfk, (None, None))
                c = And(c, la == lb, eq_rows(ctx, ra, rb))
            ctx.prove(c, 'C01:same-visible-candles-in-prefix', {'hook': a['hook'], 'time': a['time']})
    ok = ctx.prove(len(ea) == len(eb) and all(a['kind'] == b['kind'] and a['time'] == b['time'] and a['side'] == b['side'] and a['type'] == b['type']
                                               and a['reduce_only'] == b['reduce_only'] for a, b in zip(ea, eb)),
                   'C01:same-order-events-in-prefix', {'a': [(x['kind'], x['type']) for x in ea], 'b': [(x['kind'], x['type']) for x in eb]})
    if ok:
        for a, b in zip(ea, eb):
            ctx.event('prefix-order-event-compared')
            ctx.prove(And(*[ctx.equal(x, y) for x, y in zip(a['vals'], b['vals'])]), 'C01:same-order-qty-and-price-in-prefix', {'kind': a['kind']})
    ctx.event('pair-compared')


JOBFN = {'h_two': h_two}


def _jobs(tier):
    jobs = []

    def add(**kw):
        jobs.append(Job('two_' + '_'.join(str(v).replace(' ', '') for v in kw.values()), h_two, kw, {'max_decisions': 8000}))
    if tier == 'quick':
        add(n=3, t=2, kind='T1', side='long', exch='futures')
        add(n=3, t=1, kind='T7', side='long', exch='futures')
        add(n=3, t=2, kind='T1mtp', side='long', exch='futures')
        add(n=3, t=2, kind='T7', side='long', exch='futures', two_symbols='data')  # a second symbol that is only a data route, read by the strategy
        add(n=3, t=1, kind='T7', side='long', exch='futures', warm=2)  # injected warm-up candles (the store is not empty at the first minute)
        add(n=3, t=1, kind='T1', side='long', exch='futures', fast=True, warm=2)
        add(n=6, t=3, kind='T1', side='long', exch='futures', tf='3m', fast=True, sym=[2, 3])  # the first replaced minute may gap
    else:
        for side in ('long', 'short'):
            for kind in ('T1', 'T1tp', 'T1mtp', 'T7', 'T5'):
                add(n=3, t=2, kind=kind, side=side, exch='futures')
                add(n=3, t=1, kind=kind, side=side, exch='futures')
        add(n=3, t=2, kind='T1', side='long', exch='spot')
        add(n=3, t=2, kind='T7', side='long', exch='spot')
        add(n=4, t=3, kind='T1', side='long', exch='futures')
        add(n=6, t=3, kind='T1', side='long', exch='futures', tf='3m', sym=[1, 2, 4])
        add(n=6, t=3, kind='T1', side='long', exch='futures', tf='3m', fast=True, sym=[1, 2, 4])
        add(n=6, t=3, kind='T7', side='short', exch='futures', tf='3m', fast=True, sym=[2, 3, 5])
        add(n=10, t=5, kind='T1', side='long', exch='futures', tf='1m', data=['5m'], sym=[3, 4, 6])
        add(n=10, t=5, kind='T1', side='long', exch='futures', tf='5m', data=[], fast=True, sym=[3, 4, 6])
        add(n=3, t=2, kind='T1', side='long', exch='futures', warm=3)
        add(n=6, t=3, kind='T1', side='long', exch='futures', tf='3m', warm=3, sym=[1, 2, 4])
        add(n=3, t=2, kind='T1', side='long', exch='futures', two_symbols=True)
        add(n=3, t=2, kind='T7', side='long', exch='futures', two_symbols='data')
        add(n=4, t=2, kind='T7', side='long', exch='futures', two_symbols='data', fast=True)
        add(n=4, t=2, kind='T7', side='long', exch='futures', tf='1m', fast=True)
        add(n=3, t=2, kind='T1mtp', side='long', exch='futures', fast=True)
        add(n=6, t=3, kind='T1mtp', side='short', exch='futures', tf='3m', fast=True, sym=[1, 2, 3])
    return jobs


def setup(tier, seed):
    from ..engine import jstubs
    jstubs.install_core()
    S.install_monitors()
    jobs = _jobs(tier)
    return {
        'jobs': jobs,
        'budget_s': 780 if tier == 'quick' else 3300,
        'explanation': 'product program: run A of research.backtest on candles X and run B on X[:t]+Y[t:] (Y fresh symbols) on one path; a recording '
                       'strategy logs every hook with time, visible candles of every route timeframe (length and last two rows), price, position, '
                       'balance, margin; the Order wrappers log submissions, fills, cancellations; z3 proves every entry of the two logs with '
                       'time <= X[t].timestamp equal - any dependence of the prefix on X[t:] would be a term over X[t] differing from the term over Y[t].',
        'bounds': {'n': sorted({j.kwargs['n'] for j in jobs}), 'templates': sorted({j.kwargs['kind'] for j in jobs}), 'route_sets': '1m; 3m; 5m; 1m+5m data; two symbols',
                   'simulators': 'step and fast (t on a chunk boundary)'},
        'outside': ['sessions longer than 10 minutes', 'more than 3 symbolic minutes in the sparse sessions', 'strategies outside T1,T1tp,T5,T7', 'timeframes above 5m'],
        'stubs': list(jstubs.INSTALLED),
        'assumptions': ['floats as reals'],
        'must_reach': ['prefix-hook-compared', 'prefix-order-event-compared', 'pair-compared'],
    }


def signature(v):
    return v['label']


def make_witness(v):
    return {'fn': 'h_two', 'kwargs': v['bounds'], 'label': v['label'], 'model': v['model'], 'info': v.get('info')}


def replay(w):
    S.install_monitors()
    return replay_harness(JOBFN[w['fn']], w['kwargs'], w['model'], w['label'])
