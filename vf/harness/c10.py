"""C10 - smart order routing and declarative exit orders (H-SESSION)."""
import itertools

import numpy as np

from ..engine import symex as sx
from ..engine.explore import Job
from ..engine.concrete import replay_harness
from . import session as S
from .common import And, Or, Not, Implies

ID = 'C10'
THRESH = 0.00015


def _abs(x):
    return sx.sabs(x) if sx.is_sym(x) else abs(x)


def near(p, cur):
    """the statement's 'within 0.015 percent', written like helpers.is_price_near so constants fold alike"""
    return _abs(1 - (p / cur)) <= THRESH


def _rows(x):
    if x is None:
        return []
    if isinstance(x, np.ndarray):
        return [tuple(r) for r in x]
    if isinstance(x, (list, tuple)) and len(x) and not isinstance(x[0], (list, tuple, np.ndarray)):
        return [tuple(x)]
    return [tuple(r) for r in x]


def latest_declaration(rec, info, key):
    for (t, hook, pl) in reversed(rec.hooks[:info['n_hooks']]):
        if key in pl and pl[key] is not None:
            return _rows(pl[key]), hook
    return [], None


def routing_obligations(ctx, rec):
    for od in rec.orders:
        info = rec.order_info[id(od)]
        if not info.get('accepted') or info.get('liquidation'):
            continue
        cur = info['strategy_price']
        if cur is None:
            continue
        via = od.submitted_via
        q = _abs(info['qty0'])
        p = info['price0']
        if info.get('terminate_close'):
            continue
        if via is None:
            # entry order
            key = 'buy' if od.side == 'buy' else 'sell'
            rows, hook = latest_declaration(rec, info, key)
            if not rows:
                ctx.event('undeclared-order')
                continue
            ctx.event('entry-order')
            is_near = near(p if od.type != 'MARKET' else _declared_price(rows, q, p), cur)
            if od.type == 'MARKET':
                # a market entry is stamped with the current price; it must stand for a declared row near the current price
                ctx.prove(Or(*[And(_abs(r[0]) == q, near(r[1], cur)) for r in rows]), 'C10:market-entry-only-for-near-price', {'seq': info['seq']})
                ctx.prove(ctx.equal(p, info['price_at_submit']), 'C10:market-entry-at-current-price', {'seq': info['seq']})
                ctx.event('entry-MARKET')
            else:
                ctx.prove(Or(*[And(_abs(r[0]) == q, r[1] == p) for r in rows]), 'C10:order-has-declared-qty-and-price', {'seq': info['seq'], 'kind': key})
                better = (p < cur) if od.side == 'buy' else (p > cur)
                # preferred counterexamples sit well inside a region (the 0.015% band around 100 is narrower than the 1/64 lattice,
                # so a model such as cur + 1e-17 would be all the solver offers and would not survive the binary64 replay)
                gap = _abs(p - cur)
                sturdy = And(gap > cur * 0.00004, Or(gap < cur * 0.00011, gap > cur * 0.0002))
                if od.type == 'LIMIT':
                    ctx.prove(And(Not(near(p, cur)), better), 'C10:entry-type-follows-price-relation', {'seq': info['seq'], 'type': od.type},
                              witness=sturdy)
                else:
                    ctx.prove(And(Not(near(p, cur)), Not(better)), 'C10:entry-type-follows-price-relation', {'seq': info['seq'], 'type': od.type},
                              witness=sturdy)
                ctx.event('entry-' + od.type)
            ctx.prove(od.reduce_only is False and od.side == key, 'C10:entry-side-and-not-reduce-only', {'seq': info['seq']})
        else:
            key = 'stop_loss' if via == 'stop-loss' else 'take_profit'
            rows, hook = latest_declaration(rec, info, key)
            ctx.event('exit-order')
            ptype = info['pos_type']
            closing = 'sell' if ptype == 'long' else 'buy'
            ctx.prove(od.reduce_only is True and od.side == closing, 'C10:exit-reduce-only-on-closing-side', {'seq': info['seq'], 'via': via})
            ctx.prove(Or(*[And(_abs(r[0]) == q, r[1] == p) for r in rows]), 'C10:order-has-declared-qty-and-price', {'seq': info['seq'], 'kind': key})
            profit_side = (p > cur) if ptype == 'long' else (p < cur)
            if od.type == 'MARKET':
                ctx.prove(near(p, cur), 'C10:exit-type-follows-price-relation', {'seq': info['seq'], 'type': od.type})
            elif od.type == 'LIMIT':
                ctx.prove(And(Not(near(p, cur)), profit_side), 'C10:exit-type-follows-price-relation', {'seq': info['seq'], 'type': od.type})
            else:
                ctx.prove(And(Not(near(p, cur)), Not(profit_side)), 'C10:exit-type-follows-price-relation', {'seq': info['seq'], 'type': od.type})
            ctx.event('exit-' + od.type)


def _declared_price(rows, q, p):
    return rows[0][1]


def injective(ctx, orders, rows):
    """condition: an injective map from orders to rows with equal (|qty|, price) exists"""
    if len(orders) > len(rows):
        return False
    alts = []
    for perm in itertools.permutations(range(len(rows)), len(orders)):
        alts.append(And(*[And(_abs(o.qty) == _abs(rows[j][0]), o.price == rows[j][1]) for o, j in zip(orders, perm)]))
    return Or(*alts) if alts else True


def step_obligations(ctx, rec):
    last_before = None
    cancel_answer = None
    open_ev = 0
    n_open = 0
    for (t, hook, pl) in rec.hooks:
        if hook == 'on_open_position':
            open_ev = pl['n_events']
            n_open += 1
        if hook == 'before':
            last_before = pl
            cancel_answer = None
        elif hook == 'should_cancel_entry':
            cancel_answer = pl['answer']
        elif hook == 'after':
            active = pl['active']
            if pl['is_open']:
                for via, rows in (('stop-loss', pl['sl']), ('take-profit', pl['tp'])):
                    ods = [o for o in active if o.submitted_via == via]
                    if ods:
                        ctx.event('step-with-active-exits')
                        if n_open >= 2:
                            ctx.event('second-trade-with-exits')
                    ctx.prove(injective(ctx, ods, rows or []), 'C10:active-exits-match-latest-declaration', {'via': via, 'index': pl['index'], 'n': len(ods)})
                    # the converse (every declared row has its order) as long as no exit of that kind has been filled in this trade:
                    # a filled row keeps its place in the declaration but has no active order any more
                    filled = [pl2['order'] for (k2, t2, pl2) in rec.events[open_ev:pl['n_events']]
                              if k2 == 'fill' and pl2['order'].submitted_via == via]
                    if rows and not filled:
                        ctx.prove(len(ods) == len(rows), 'C10:every-declared-exit-row-has-an-active-order',
                                  {'via': via, 'index': pl['index'], 'orders': len(ods), 'rows': len(rows)})
            else:
                ctx.prove(not any(o.submitted_via in ('stop-loss', 'take-profit') or o.reduce_only for o in active),
                          'C10:no-exit-order-active-after-close', {'index': pl['index']})
            # entry cancellation rule
            if last_before is not None and not last_before['is_open']:
                resting = [o for o in last_before['active'] if o.submitted_via is None and not o.reduce_only and o.type != 'MARKET']
                if resting and cancel_answer is not None:
                    ctx.event('step-with-resting-entries')
                    cancelled_now = [pl2['order'] for (k2, t2, pl2) in rec.events[last_before['n_events']:pl['n_events']] if k2 == 'cancel']
                    if cancel_answer:
                        ctx.prove(all(any(o is c for c in cancelled_now) for o in resting)
                                  and not any(any(o is a for a in active) for o in resting),
                                  'C10:entries-cancelled-iff-should-cancel-entry', {'answer': True, 'index': pl['index']})
                        ctx.event('entries-cancelled')
                    else:
                        ctx.prove(not any(any(o is c for c in cancelled_now) for o in resting),
                                  'C10:entries-cancelled-iff-should-cancel-entry', {'answer': False, 'index': pl['index']})
                        ctx.event('entries-kept')


def h_session(ctx, n=3, kind='T1', side='long', exch='futures', cancel=True, sym=None):
    long = side == 'long'
    rows = S.sparse_rows(ctx, n, list(sym)) if sym is not None else S.minute_rows(ctx, n, sym_from=1)
    on_open = exch == 'spot' or kind in ('T4', 'T5')
    sgn = 1 if long else -1
    if kind in ('T1', 'T6'):
        # entry around the 0.015% boundary of the current price 100
        pe = ctx.real('pe', 99.8, 100.2)
        sl = ctx.real('sl', 50, 200)
        tp = ctx.real('tp', 50, 200)
        ctx.constrain(And(sl < 99.7, tp > 100.3) if long else And(sl > 100.3, tp < 99.7))
        T = S.make_template(side=side, entry=pe, stop=sl, take=tp, qty=1.0, on_open_exits=on_open, exit_qty_from_position=(exch == 'spot'),
                            name=kind, cancel_entry=cancel)
    elif kind == 'T2':
        p1 = ctx.real('p1', 99.8, 100.2)
        p2 = ctx.real('p2', 50, 200)
        sl = ctx.real('sl', 50, 200)
        ctx.constrain(And(sl < p2, sl < 99.7) if long else And(sl > p2, sl > 100.3))
        T = S.make_template(side=side, entry=[(1.0, p1), (1.0, p2)], stop=[(2.0, sl)], qty=2.0, name='T2', cancel_entry=cancel)
    elif kind == 'T4':
        # exits declared in on_open_position; take-profit moved in update_position to a price near/around the then-current price
        sl = ctx.real('sl', 50, 200)
        tp = ctx.real('tp', 50, 200)
        tp2 = ctx.real('tp2', 50, 200)
        ctx.constrain(And(sl < 99.7, tp > 100.3, tp2 > 100.3) if long else And(sl > 100.3, tp < 99.7, tp2 < 99.7))
        T = S.make_template(side=side, entry=None, stop=sl, take=tp, qty=1.0, on_open_exits=True, name='T4',
                            exit_qty_from_position=(exch == 'spot'),
                            update_take=lambda s: ((abs(s.position.qty) if exch == 'spot' else 1.0), tp2) if s.index >= 1 else s.take_profit)
    elif kind == 'T3':
        sl = ctx.real('sl', 50, 200)
        t1 = ctx.real('t1', 50, 200)
        t2 = ctx.real('t2', 50, 200)
        s2 = ctx.real('s2', 50, 200)
        ctx.constrain(And(sl < 99.7, t1 > 100.3, t2 > 100.3, s2 < 99.7) if long else And(sl > 100.3, t1 < 99.7, t2 < 99.7, s2 > 100.3))
        T = S.make_template(side=side, entry=None, stop=[(2.0, sl)], take=[(1.0, t1), (1.0, t2)], qty=2.0, name='T3',
                            reduced_stop=lambda s: [(abs(s.position.qty), s2)])
    elif kind == 'T7':
        # consecutive trades: exits declared in on_open_position with the same rows in every trade; the first trade is closed by
        # its take-profit or stop-loss inside minute 1 and the next entry is made at the close of that minute
        sl = ctx.real('sl', 50, 200)
        tp = ctx.real('tp', 50, 200)
        ctx.constrain(And(sl < 99.7, tp > 100.3) if long else And(sl > 100.3, tp < 99.7))
        c1 = rows[1][2]
        ctx.constrain(And(c1 > sl + 0.5, c1 < tp - 0.5) if long else And(c1 < sl - 0.5, c1 > tp + 0.5))
        T = S.make_template(side=side, entry=None, stop=sl, take=tp, qty=1.0, on_open_exits=True, name='T7', reenter=True,
                            exit_qty_from_position=(exch == 'spot'))
    elif kind == 'T8m':
        # the stop-loss declaration gains a second row at step 1 and loses it again at step 2, the first row staying the same
        s1 = ctx.real('s1', 50, 200)
        s2 = ctx.real('s2', 50, 200)
        ctx.constrain(And(s1 < 99.7, s2 < 99.7, Not(s1 == s2)) if long else And(s1 > 100.3, s2 > 100.3, Not(s1 == s2)))

        def stops(st):
            if st.index == 1:
                return [(1.0, s1), (1.0, s2)]
            if st.index >= 2:
                return [(1.0, s1)]
            return st.stop_loss
        T = S.make_template(side=side, entry=None, stop=[(1.0, s1)], take=None, qty=2.0, name='T8m', update_stop=stops)
    elif kind == 'T3h':
        # multi-row take-profit with UNEQUAL quantities declared in a hook (on_open_position), prices in any order
        sl = ctx.real('sl', 50, 200)
        t1 = ctx.real('t1', 50, 200)
        t2 = ctx.real('t2', 50, 200)
        ctx.constrain(And(sl < 99.7, t1 > 100.3, t2 > 100.3, Not(t1 == t2)) if long else And(sl > 100.3, t1 < 99.7, t2 < 99.7, Not(t1 == t2)))
        T = S.make_template(side=side, entry=None, stop=[(3.0, sl)], take=[(2.0, t1), (1.0, t2)], qty=3.0, on_open_exits=True, name='T3h')
    elif kind == 'T5':
        sl = ctx.real('sl', 50, 200)
        ctx.constrain(sl < 99.7 if long else sl > 100.3)
        T = S.make_template(side=side, entry=None, stop=sl, take=None, qty=1.0, on_open_exits=True, name='T5', liquidate_at=1)
    else:
        raise ValueError(kind)
    cfg = S.config_dict(exchange_type=exch, leverage=2, fee=0.001, balance=10000.0)
    from jesse import exceptions as jex
    rec = S.run_session(S.make_candles(rows), T, cfg, catch=(jex.InsufficientBalance,) if exch == 'spot' else ())
    if rec.exc is not None:
        # spot: a modified exit routed as a second resting STOP/LIMIT sell exceeds the base balance and is rejected by the exchange
        ctx.event('spot-session-ended-by-insufficient-balance')
        return
    # the market order that closes an open position at session end is not a declared order
    for od in rec.orders:
        info = rec.order_info[id(od)]
        last_hook = rec.hooks[info['n_hooks'] - 1][1] if info['n_hooks'] else None
    _mark_terminate_close(rec)
    routing_obligations(ctx, rec)
    step_obligations(ctx, rec)
    ctx.event('session')


def _mark_terminate_close(rec):
    # _terminate() submits reduce_position_at(position.qty, current_price) before calling terminate(): it is the last order
    # created before the 'terminate' hook record when the position was still open at the last 'after'
    idx = None
    for i, (t, hook, pl) in enumerate(rec.hooks):
        if hook == 'terminate':
            idx = i
    if idx is None:
        return
    for od in rec.orders:
        info = rec.order_info[id(od)]
        if info['n_hooks'] == idx and od.submitted_via is None and od.reduce_only:
            info['terminate_close'] = True


JOBFN = {'h_session': h_session}


def _jobs(tier):
    jobs = []

    def add(**kw):
        jobs.append(Job('sess_' + '_'.join(str(v) for v in kw.values()), h_session, kw, {'max_decisions': 4000}))
    if tier == 'quick':
        add(n=3, kind='T1', side='long', exch='futures')
        add(n=3, kind='T1', side='short', exch='futures')   # the short mirror of the symbolic-priced entry (seed C10e)
        add(n=3, kind='T4', side='short', exch='futures')
        add(n=3, kind='T6', side='long', exch='futures', cancel=False)
        add(n=3, kind='T7', side='long', exch='futures')
        add(n=2, kind='T3h', side='long', exch='futures')
        add(n=4, kind='T8m', side='long', exch='futures', sym=[2])
    else:
        for side in ('long', 'short'):
            for kind in ('T1', 'T2', 'T3', 'T3h', 'T4', 'T5', 'T7'):
                pass
            add(n=4, kind='T8m', side=side, exch='futures', sym=[1, 2])
            for kind in ('T1', 'T2', 'T3', 'T3h', 'T4', 'T5', 'T7'):
                add(n=3, kind=kind, side=side, exch='futures')
            add(n=3, kind='T6', side=side, exch='futures', cancel=False)
        add(n=3, kind='T1', side='long', exch='spot')
        add(n=3, kind='T4', side='long', exch='spot')
        add(n=4, kind='T4', side='long', exch='futures')
        add(n=3, kind='T7', side='long', exch='spot')
    return jobs


def setup(tier, seed):
    from ..engine import jstubs
    jstubs.install_core()
    S.install_monitors()
    jobs = _jobs(tier)
    return {
        'jobs': jobs,
        'budget_s': 780 if tier == 'quick' else 3300,
        'explanation': 'the real Strategy/Broker/Sandbox run inside research.backtest on symbolic candles; declared entry prices are symbolic around '
                       'the 0.015% boundary of the current price, exits are symbolic; a wrapper around Order.__init__ records type/side/qty/price/'
                       'reduce_only and strategy.price at that moment; z3 proves per order: exactly a declared (qty, price); MARKET iff within 0.015%, '
                       'entry better->LIMIT worse->STOP, exit profit side->LIMIT loss side->STOP; exits reduce-only on the closing side; after every '
                       'strategy step an injective map from active SL/TP orders to the latest declaration exists; none active after close; resting '
                       'entries all cancelled iff should_cancel_entry().',
        'bounds': {'templates': sorted({j.kwargs['kind'] for j in jobs}), 'candles': '1 concrete + 2 symbolic', 'entry': 'pe in [99.8,100.2] around current price 100'},
        'outside': ['wrong-side exits at open (jesse replaces them by market orders; assumed valid declarations, see DESIGN C10)', 'more than 2 rows per declaration', 'float rounding'],
        'stubs': list(jstubs.INSTALLED),
        'assumptions': ['floats as reals', 'MARKET entries are stamped with the current price, MARKET exits with the declared price (within the threshold)',
                        'stop-loss/take-profit declared on the valid side of the entry price'],
        'must_reach': ['entry-MARKET', 'entry-LIMIT', 'entry-STOP', 'exit-LIMIT', 'exit-STOP', 'exit-MARKET', 'step-with-active-exits',
                       'C10:no-exit-order-active-after-close', 'entries-cancelled', 'entries-kept', 'second-trade-with-exits'],
    }


def signature(v):
    return v['label']


def make_witness(v):
    return {'fn': 'h_session', 'kwargs': v['bounds'], 'label': v['label'], 'model': v['model'], 'info': v.get('info')}


def replay(w):
    S.install_monitors()
    return replay_harness(JOBFN[w['fn']], w['kwargs'], w['model'], w['label'])
