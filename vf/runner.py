"""Common check driver: explore -> replay counterexamples -> known findings -> evidence -> exit code."""
import hashlib
import importlib
import json
import os
import subprocess
import sys
import time

import z3

from .engine import explore as ex

ROOT = os.path.dirname(os.path.dirname(os.path.abspath(__file__)))
EXIT_OK, EXIT_VIOLATION, EXIT_INCONCLUSIVE = 0, 1, 3


def load_known():
    p = os.path.join(ROOT, 'known_findings.json')
    if not os.path.exists(p):
        return []
    with open(p) as f:
        return json.load(f).get('findings', [])


def _jsonable(x):
    try:
        json.dumps(x)
        return x
    except TypeError:
        if isinstance(x, dict):
            return {str(k): _jsonable(v) for k, v in x.items()}
        if isinstance(x, (list, tuple, set)):
            return [_jsonable(v) for v in x]
        return repr(x)


def write_replay(pid, witness):
    d = os.path.join(ROOT, 'replays')
    os.makedirs(d, exist_ok=True)
    body = json.dumps(_jsonable(witness), sort_keys=True, indent=1)
    h = hashlib.sha1(body.encode()).hexdigest()[:12]
    path = os.path.join(d, '%s-%s.json' % (pid, h))
    with open(path, 'w') as f:
        f.write(body)
    return path


def run_replay_subprocess(pid, path, timeout=600):
    """replay a witness against the unpatched code in a fresh process.
    returns (reproduced: bool|None, output)"""
    env = dict(os.environ)
    env['PYTHONPATH'] = ROOT + ':' + os.environ.get('VF_REPO', '/repo')
    env['VF_REPLAY'] = '1'
    try:
        p = subprocess.run([sys.executable, '-m', 'vf', pid, '--replay', path], cwd=ROOT, env=env,
                           capture_output=True, text=True, timeout=timeout)
    except subprocess.TimeoutExpired:
        return None, 'replay timeout'
    out = p.stdout + p.stderr
    if p.returncode == 1:
        return True, out
    if p.returncode == 0:
        return False, out
    return None, out


def validate_samples(pid, mod, jobs, results, harness_errors, limit=6):
    """differential validation of the environment stubs: concrete models sampled from the explored paths are run through the
    harness twice - in this process (stubs installed: numpy shim, python kernels, proxy-aware builtins) and in a fresh subprocess on
    the unpatched code (real numpy/numba/pandas) - and the observations (event counters, obligations passed/failed) must agree"""
    from .engine.concrete import digest_harness
    byname = {j.name: j for j in jobs}
    items = []
    for r in results:
        j = byname.get(r.name)
        if j is None or j.opts.get('fork_per_path') or j.fn.__name__ not in getattr(mod, 'JOBFN', {}):
            continue
        for smp in r.samples[:1]:
            if smp.get('model'):
                items.append({'fn': j.fn.__name__, 'kwargs': r.bounds, 'model': smp['model'], 'job': r.name})
        if len(items) >= limit:
            break
    if not items:
        return {'samples': 0}
    here = [digest_harness(mod.JOBFN[it['fn']], it['kwargs'], it['model']) for it in items]
    d = os.path.join(ROOT, '.work')
    os.makedirs(d, exist_ok=True)
    path = os.path.join(d, 'digest_%s_%d.json' % (pid, os.getpid()))
    with open(path, 'w') as f:
        json.dump(_jsonable(items), f)
    env = dict(os.environ)
    env['PYTHONPATH'] = ROOT + ':' + os.environ.get('VF_REPO', '/repo')
    try:
        p = subprocess.run([sys.executable, '-m', 'vf', pid, '--digest', path], cwd=ROOT, env=env, capture_output=True, text=True, timeout=900)
    finally:
        try:
            os.remove(path)
        except OSError:
            pass
    line = [l for l in p.stdout.splitlines() if l.startswith('DIGESTS ')]
    if not line:
        raise RuntimeError('no digests from the unpatched run: ' + (p.stderr or p.stdout)[-400:])
    there = json.loads(line[-1][8:])
    agree = 0
    for it, a, b in zip(items, here, there):
        if json.loads(json.dumps(_jsonable(a))) == b:
            agree += 1
        else:
            harness_errors.append('shim validation: stubbed and unpatched pipelines disagree on a concrete sample of %s: stubbed=%s unpatched=%s'
                                  % (it['job'], json.dumps(_jsonable(a))[:300], json.dumps(b)[:300]))
    return {'samples': len(items), 'agree': agree, 'what': 'concrete models from explored paths run through the stubbed and the unpatched pipeline; event counters and obligation outcomes compared'}


def main(argv):
    import argparse
    ap = argparse.ArgumentParser()
    ap.add_argument('pid')
    ap.add_argument('--tier', default=os.environ.get('VERIF_TIER', 'quick'))
    ap.add_argument('--replay', default=None)
    ap.add_argument('--only', default=None, help='substring filter on job names (debugging; evidence is marked partial)')
    ap.add_argument('--inline', action='store_true')
    ap.add_argument('--budget', type=float, default=None)
    ap.add_argument('--no-evidence', action='store_true')
    ap.add_argument('--digest', default=None, help='internal: run the listed concrete samples on the unpatched code and print their digests')
    args = ap.parse_args(argv)
    pid = args.pid.upper()
    tier = args.tier if args.tier in ('quick', 'thorough') else 'quick'
    try:
        seed = int(os.environ.get('VERIF_SEED', '0'))
    except ValueError:
        seed = 0
    mod = importlib.import_module('vf.harness.' + pid.lower())

    if args.digest:
        from .engine.concrete import digest_harness
        with open(args.digest) as f:
            items = json.load(f)
        if hasattr(mod, 'prepare_concrete'):
            mod.prepare_concrete()
        elif getattr(mod, 'S', None) is not None and hasattr(mod.S, 'install_monitors'):
            mod.S.install_monitors()  # recording wrappers only; no stubs
        out = []
        for it in items:
            out.append(digest_harness(mod.JOBFN[it['fn']], it['kwargs'], it['model']))
        print('DIGESTS ' + json.dumps(_jsonable(out)))
        return EXIT_OK

    if args.replay:
        with open(args.replay) as f:
            w = json.load(f)
        ok, msg = mod.replay(w)
        print(msg)
        if ok:
            print('REPRODUCED property=%s replay=%s' % (pid, args.replay))
            return EXIT_VIOLATION
        print('NOT-REPRODUCED property=%s replay=%s' % (pid, args.replay))
        return EXIT_OK

    t0 = time.time()
    spec = mod.setup(tier, seed)  # installs stubs, validates shims, returns dict
    jobs = spec['jobs']
    if args.only:
        jobs = [j for j in jobs if args.only in j.name]
    budget = args.budget or spec.get('budget_s', 900 if tier == 'quick' else 3000)
    harness_errors = list(spec.get('harness_errors', []))

    def progress(n, pending, el):
        print('  .. %d paths, %d pending, %.0fs' % (n, pending, el), file=sys.stderr, flush=True)

    if args.inline:
        results = []
        timed_out = False
        for j in jobs:
            r, to = ex.run_inline(j, budget_s=budget)
            results.append(r)
            timed_out = timed_out or to
    else:
        results, timed_out = ex.explore(jobs, budget_s=budget, progress=progress)

    # extra concrete / solver obligations the harness runs in the main process
    extra = {}
    if hasattr(mod, 'extra_checks'):
        extra = mod.extra_checks(tier, seed) or {}
        harness_errors.extend(extra.get('harness_errors', []))

    # ---- shim validation: the same concrete samples through the stubbed pipeline (here) and the unpatched code (subprocess)
    shim_val = dict(spec.get('shim_validation', {}))
    if hasattr(mod, 'JOBFN') and not args.only and spec.get('validate_samples', True):
        try:
            shim_val.update(validate_samples(pid, mod, jobs, results, harness_errors))
        except Exception as e:  # noqa
            harness_errors.append('shim validation could not run: %r' % (e,))

    # ---- triage violations -------------------------------------------------------------------
    known = [k for k in load_known() if k.get('property') == pid and k.get('status') == 'known']
    known_sigs = {}
    for k in known:
        for s in k.get('signatures', []):
            known_sigs[s] = k
    all_viol = []
    for r in results:
        for v in r.violations:
            v = dict(v)
            v['job'] = r.name
            v['bounds'] = r.bounds
            all_viol.append(v)
    for v in extra.get('violations', []):
        all_viol.append(v)
    by_sig = {}
    for v in all_viol:
        sig = mod.signature(v) if hasattr(mod, 'signature') else v['label']
        by_sig.setdefault(sig, []).append(v)
    reported = []
    known_hit = {}
    max_replays = spec.get('max_replays_per_sig', 8)

    def fragility(v):
        # counterexamples whose real inputs sit on the 1/64 lattice survive the conversion to binary64 exactly; models with values such
        # as 50.00000000000003 (the solver's last resort when no lattice model exists in time) are tried last
        m = v.get('model') or {}
        bad = 0
        for x in m.values():
            if isinstance(x, float) and x == x and abs(x) < 1e15 and (x * 64) != int(x * 64):
                bad += 1
        return bad
    for sig, vs in sorted(by_sig.items()):
        reproduced = None
        tried = 0
        last_out = ''
        vs = sorted(vs, key=fragility)
        for v in vs[: max_replays]:
            witness = mod.make_witness(v) if hasattr(mod, 'make_witness') else v
            path = write_replay(pid, witness)
            ok, out = run_replay_subprocess(pid, path)
            tried += 1
            last_out = out[-2000:]
            if ok:
                reproduced = path
                break
            try:
                os.remove(path)
            except OSError:
                pass
        if reproduced is None:
            harness_errors.append('counterexample for %r did not reproduce on the real code (%d tried): %s'
                                  % (sig, tried, last_out[-600:]))
            continue
        if sig in known_sigs:
            known_hit.setdefault(known_sigs[sig]['id'], (known_sigs[sig], reproduced, len(vs)))
            os.remove(reproduced)
        else:
            reported.append((sig, reproduced, len(vs)))

    # ---- verdict -----------------------------------------------------------------------------
    n_paths = sum(r.paths for r in results)
    n_err = sum(len(r.errors) for r in results)
    n_inc = sum(len(r.inconclusive) for r in results) + len(extra.get('inconclusive', []))
    n_limit = sum(r.limited for r in results)
    tolerant = spec.get('tolerant_jobs', False)
    not_encoded = {}
    if tolerant:
        # jobs that could not be executed on proxies (shim gap, C code, path budget) are listed by name and are not part of the claim
        kept = []
        for r in results:
            reason = None
            if r.errors:
                reason = 'error: ' + r.errors[0].strip().split('\n')[0][:160]
            elif r.capped or not r.complete:
                reason = 'path budget exceeded (%d paths explored)' % r.paths
            elif r.limited:
                reason = 'decision limit'
            elif r.inconclusive:
                reason = 'solver unknown on %d obligations' % len(r.inconclusive)
            if reason:
                # violations found on the explored part are still triaged (they were collected above)
                not_encoded[r.name] = reason + (' (violations found on the explored part are reported)' if r.violations else '')
            else:
                kept.append(r)
        dropped = [r for r in results if r.name in not_encoded]
        results_all = results
        results = kept
        n_err = sum(len(r.errors) for r in results)
        n_inc = sum(len(r.inconclusive) for r in results) + len(extra.get('inconclusive', []))
        n_limit = sum(r.limited for r in results)
        # a job that ran on proxies when the check was built (encoded_baseline.json, committed) and now stops with an error means the
        # source changed in a way the symbolic executor cannot follow: the property is undecided for it - never a silent pass
        try:
            with open(os.path.join(ROOT, 'encoded_baseline.json')) as f:
                baseline = set(json.load(f).get(pid, {}).get(tier, []))
        except (OSError, ValueError):
            baseline = set()
        for name, reason in sorted(not_encoded.items()):
            if name in baseline and reason.startswith('error:'):
                harness_errors.append('%s was encodable when the check was built but can no longer be executed on proxies (%s): undecided for it'
                                      % (name, reason[:140]))
        if len(kept) < spec.get('min_encoded', 1):
            harness_errors.append('only %d jobs could be encoded (minimum %d)' % (len(kept), spec.get('min_encoded', 1)))
        timed_out = timed_out and any((not r.complete) and not r.capped for r in kept)
    incomplete = [r.name for r in results if not r.complete]
    for r in results:
        for e in r.errors[:2]:
            harness_errors.append('path error in %s: %s' % (r.name, e[-1500:]))
    if timed_out or incomplete:
        harness_errors.append('budget hit before exploration finished: %s' % incomplete[:5])
    if n_inc:
        harness_errors.append('%d inconclusive obligations (solver unknown)' % n_inc)
    if n_limit:
        harness_errors.append('%d paths hit the decision limit' % n_limit)
    # vacuity guards
    need = spec.get('must_reach', [])
    reached = {}
    events = {}
    for r in results:
        for k, n in r.reached.items():
            reached[k] = reached.get(k, 0) + n
        for k, n in r.events.items():
            events[k] = events.get(k, 0) + n
    for k, n in extra.get('reached', {}).items():
        reached[k] = reached.get(k, 0) + n
    if not args.only:
        for k in need:
            if reached.get(k, 0) == 0 and events.get(k, 0) == 0:
                harness_errors.append('vacuity guard: %r never reached' % k)
    for r in results:
        if r.paths and r.ok_paths == 0 and not r.errors:
            harness_errors.append('vacuity guard: every path of %s aborted' % r.name)

    wall = time.time() - t0
    obligations = sum(r.obligations for r in results) + extra.get('obligations', 0)
    discharged = sum(r.discharged for r in results) + extra.get('discharged', 0)
    funcs = set()
    for r in results:
        funcs.update(r.funcs)
    funcs.update(extra.get('functions', []))
    samples = []
    for r in results:
        samples.extend(r.samples[:1])
    samples = samples[:6] + extra.get('samples', [])[:4]
    if not samples:
        samples = [{'note': 'no path sample recorded'}]
    coverage = {
        'explanation': spec['explanation'],
        'technique': spec.get('technique', 'symbolic execution of the real code (SYMEX proxies over z3), solver verdict per path'),
        'functions_encoded': sorted(funcs),
        'bounds': spec.get('bounds', {}),
        'outside_bounds': spec.get('outside', []),
        'stubs': spec.get('stubs', []),
        'jobs': [r.summary() for r in results],
        'paths': n_paths,
        'evaluations': n_paths + extra.get('evaluations', 0),
        'distinct_nontrivial': sum(r.nontrivial for r in results) + extra.get('distinct_nontrivial', 0),
        'rule': 'one evaluation = one explored path of the real code (a unique decision prefix, i.e. a distinct region of '
                'the symbolic input space); non-trivial = the path condition contains at least one decision on a symbolic input',
        'obligations': obligations,
        'discharged': discharged,
        'inconclusive': n_inc,
        'solver_checks': sum(r.checks for r in results) + extra.get('solver_checks', 0),
        'solver_s': round(sum(r.solver_s for r in results) + extra.get('solver_s', 0.0), 2),
        'solver': 'z3 ' + z3.get_version_string(),
        'reachability': reached,
        'events': events,
        'shim_validation': shim_val,
        'extra': {k: v for k, v in extra.items() if k in ('summary', 'canaries', 'lemmas')},
        'samples': _jsonable(samples),
        'known_findings_seen': [k for k in known_hit],
        'violations_reported': [{'signature': s, 'replay': p, 'count': n} for s, p, n in reported],
        'harness_errors': harness_errors[:10],
        'encoded': sorted(r.name for r in results) if tolerant else None,
        'not_encoded': not_encoded if tolerant else None,
        'exhaustive': False,
        'partial_run': bool(args.only),
    }
    evidence = {
        'property_id': pid,
        'tier': tier,
        'seed': seed,
        'level': 'other',
        'coverage': coverage,
        'assumptions': spec.get('assumptions', []),
        'wall_s': round(wall, 2),
        'violations': len(reported),
    }
    if not args.no_evidence and not args.only:
        os.makedirs(os.path.join(ROOT, 'evidence'), exist_ok=True)
        with open(os.path.join(ROOT, 'evidence', pid + '.json'), 'w') as f:
            json.dump(evidence, f, indent=1, sort_keys=True)

    print('%s tier=%s paths=%d obligations=%d discharged=%d inconclusive=%d errors=%d wall=%.1fs solver=%.1fs'
          % (pid, tier, n_paths, obligations, discharged, n_inc, n_err, wall, coverage['solver_s']))
    if tolerant:
        print('  encoded jobs: %d   not encoded: %d' % (len(results), len(not_encoded)))
        if args.only:
            for name, reason in sorted(not_encoded.items()):
                print('  not encoded: %s: %s' % (name, reason[:200]))
    for r in (results if len(results) <= 60 else [x for x in results if x.violations or x.errors or not x.complete]):
        s = r.summary()
        print('  job %-40s paths=%-6d obl=%-7d viol=%-4d abort=%-4d err=%-3d %s %.1fs' % (
            s['job'][:40], s['paths'], s['obligations'], s['violations'], s['aborted_paths'], s['errors'],
            'complete' if s['complete'] else 'INCOMPLETE', s['wall_s']))
    for line in extra.get('report', []):
        print('  ' + line)
    for kid, (k, path, n) in sorted(known_hit.items()):
        print('KNOWN-FINDING: property=%s %s [%s; %d violating paths]' % (pid, k['what'], kid, n))
    for sig, path, n in reported:
        print('VIOLATION property=%s replay=%s signature=%s paths=%d' % (pid, path, sig, n))
    for e in harness_errors[:10]:
        print('HARNESS-ERROR: ' + e)
    if reported:
        return EXIT_VIOLATION
    if harness_errors:
        return EXIT_INCONCLUSIVE
    return EXIT_OK
