#!/bin/bash
# usage: tools/store_seed.sh <PROP_ID> <seed_name> <worktree> <change> <needs> <signatures> <note>
# Stores a confirmed seeded change (patch.diff, demo.py, meta.json) under /verif/seeded/<seed_name>/.
id=$1; name=$2; wt=$3; change=$4; needs=$5; sigs=$6; note=$7
d=/verif/seeded/$name
mkdir -p $d && cp $wt/patch.diff $wt/demo.py $d/ || exit 2
/venv/bin/python - "$id" "$name" "$change" "$needs" "$sigs" "$note" > $d/meta.json <<'PY'
import json, sys
pid, name, change, needs, sigs, note = sys.argv[1:7]
print(json.dumps({
 "breaks_property": pid,
 "change": change,
 "needs_to_manifest": needs,
 "origin": "written by an independent sub-agent that saw only the property text (plus a sentence naming the kinds of change already covered and a few generic ideas of other kinds) and a scratch worktree of /repo",
 "confirmed": "tools/confirm_seed.sh %s <worktree>: demo.py exits 1 with the change and 0 without it; the repository suite passes (438) with the change applied" % pid,
 "detected_by": {"check": "./check %s --tier quick" % pid, "signatures": sigs, "exit": 1},
 "note": note,
 "how_to_rerun": "git -C /repo apply /verif/seeded/%s/patch.diff && (cd /verif && ./check %s --tier quick); git -C /repo checkout -- ." % (name, pid),
}, indent=1))
PY
echo stored $d
