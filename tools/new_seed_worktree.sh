#!/bin/bash
# usage: tools/new_seed_worktree.sh <PROP_ID> <name>   -> /tmp/wt_<name>: detached worktree of /repo's HEAD with PROPERTY.txt (the property text only)
id=$1; name=$2; wt=/tmp/wt_$name
git -C /repo worktree add --detach $wt HEAD >/dev/null 2>&1 || { echo "cannot create $wt"; exit 2; }
/venv/bin/python - "$id" "$wt" <<'PY'
import json, sys
pid, wt = sys.argv[1], sys.argv[2]
for l in open('/verif/properties.jsonl'):
    d = json.loads(l)
    if d['id'] == pid:
        with open(wt + '/PROPERTY.txt', 'w') as f:
            f.write('%s\n\n%s\n\nIt must hold %s.\n\nCode it is about: %s\n' % (d['title'], d['statement'], d['quantifier']['text'], ', '.join(d['anchors']['files'])))
PY
echo $wt
