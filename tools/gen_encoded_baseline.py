#!/usr/bin/env python3
"""Records which tolerant jobs (indicator harnesses of C13-C15) were executed on proxies on the unchanged tree.
usage: tools/gen_encoded_baseline.py <tier> [evidence_dir]   (run after ./check C13/C14/C15 --tier <tier> on the unchanged tree)
The runner reports (exit 3) a job of this list that later fails with an *error* (not a budget) instead of dropping it silently."""
import json
import os
import sys

ROOT = os.path.dirname(os.path.dirname(os.path.abspath(__file__)))
tier = sys.argv[1]
evdir = sys.argv[2] if len(sys.argv) > 2 else os.path.join(ROOT, 'evidence')
path = os.path.join(ROOT, 'encoded_baseline.json')
try:
    base = json.load(open(path))
except (OSError, ValueError):
    base = {}
for pid in ('C13', 'C14', 'C15'):
    e = json.load(open(os.path.join(evdir, pid + '.json')))
    if e.get('tier') != tier:
        print(pid, 'evidence is for tier', e.get('tier'), '- skipped')
        continue
    enc = sorted(e['coverage'].get('encoded') or [])
    base.setdefault(pid, {})[tier] = enc
    print(pid, tier, len(enc), 'encoded jobs recorded')
json.dump(base, open(path, 'w'), indent=0, sort_keys=True)
