#!/bin/bash
# usage: tools/run_all.sh quick|thorough [ids...]   -> runs the checks one after another, prints a summary table
tier=${1:-quick}; shift
ids=${@:-C01 C02 C03 C04 C05 C06 C07 C08 C09 C10 C11 C12 C13 C14 C15 C16 C17 C18 C19 C20}
cd "$(dirname "$0")/.."
for id in $ids; do
  s=$(date +%s)
  ./check $id --tier $tier > .work_${id}_${tier}.log 2>&1
  rc=$?
  e=$(date +%s)
  echo "== $id tier=$tier exit=$rc wall=$((e-s))s"
  grep -E "^C[0-9]+ tier|encoded jobs|VIOLATION|KNOWN-FINDING|HARNESS-ERROR|INCOMPLETE" .work_${id}_${tier}.log | cut -c1-220
done
