#!/bin/bash
# usage: tools/confirm_seed.sh <PROP_ID> <worktree> [checks...]
# Confirms a seeded change delivered by a sub-agent in its scratch worktree (demo fails with the change, passes without,
# the repository's suite passes with it), then runs the named checks (default: the property's own quick check) against the
# worktree with the change applied (VF_REPO=<worktree>), and prints a summary.
id=$1; wt=$2; shift 2
checks=${@:-$id}
cd "$wt" || exit 2
[ -f patch.diff ] && [ -f demo.py ] || { echo "missing patch.diff/demo.py"; exit 2; }
git apply -R --check patch.diff 2>/dev/null || git apply patch.diff 2>/dev/null
PYTHONPATH=$wt /venv/bin/python demo.py > .demo_with.log 2>&1; with=$?
git apply -R patch.diff || { echo "cannot revert patch"; exit 2; }
PYTHONPATH=$wt /venv/bin/python demo.py > .demo_without.log 2>&1; without=$?
git apply patch.diff || { echo "cannot re-apply patch"; exit 2; }
tests=$(/venv/bin/python -m pytest -q -p no:cacheprovider --timeout=900 2>&1 | tail -1)
echo "SEED $id: demo exit with change=$with, without=$without; suite with change: $tests"
for c in $checks; do
  out=$(cd /verif && VF_REPO=$wt ./check $c --tier ${TIER:-quick} --no-evidence 2>&1)
  rc=$?
  echo "  check $c (tier ${TIER:-quick}) on the changed tree: exit=$rc"
  echo "$out" | grep -E "^VIOLATION|^HARNESS-ERROR" | cut -c1-260 | head -6 | sed 's/^/    /'
done
