#!/usr/bin/env python3
"""Regenerates MANIFEST.json from the table below (kept in one place so it is always valid)."""
import json
import os

ROOT = os.path.dirname(os.path.dirname(os.path.abspath(__file__)))

TECH = 'symbolic execution of the real jesse code on proxy values (SYMEX over z3), one solver verdict per path and obligation, bounded'

# id -> (design_ref, level text, level_note, technique)
CLAIMED = {
    'C08': ('DESIGN.md C08',
            'Bounded solver-based check: split_candle and _sort_execution_orders run on a symbolic candle and symbolic order '
            'prices; every clause of the statement is discharged by z3 for every ordinal arrangement (ties included) of the '
            'explored paths; sessions add the path-model monitor.',
            'floats modelled as reals; at most 3 (quick) / 4 (thorough) orders per minute in the kernel harness; sessions with exits, reaction orders '
            'and a three-point entry ladder (prices in any order, ties included) on one symbolic minute; z3 is trusted',
            TECH),
    'C02': ('DESIGN.md C02',
            'Bounded solver-based check: the real research.backtest (step and fast simulator, Strategy, Broker, Order, Position, '
            'exchanges, candle store) runs on symbolic one-minute candles and symbolic order prices; per explored path the '
            'recorded fills are checked against the continuous-path model by z3 (own price/qty, earliest hit first, nothing '
            'reachable left active, no fill before submit/after cancel, market orders flushed at the current price).',
            'floats as reals; templates T1..T4,T8; 2-3 symbolic candles; concrete quantities, fee, leverage; numpy shim / '
            'Decimal helpers as exact +,- ; MARKET fill accepted within the 0.015% routing threshold of the current price',
            TECH),
    'C03': ('DESIGN.md C03',
            'Bounded solver-based check: submit/execute/cancel histories on the real Sandbox driver, Order, Position and '
            'FuturesExchange with symbolic balance, fee, quantities and prices; after every operation z3 proves wallet, position, '
            'entry price, unrealised PnL and available margin equal to the average-cost margin model and the rejection rule. '
            'H-STEP: one operation from an arbitrary symbolic pre-state (position, resting orders, balance) proves the same equalities inductively.',
            'floats as reals; leverage enumerated (1..125 set); histories up to length 4 exhaustive for LIMIT/MARKET kinds plus targeted '
            'length-5 and two-symbol histories; nlsat fallback for the few nonlinear queries z3 default leaves unknown',
            TECH),
    'C04': ('DESIGN.md C04',
            'Bounded solver-based check: submit/execute/cancel histories on the real Sandbox driver, Order, Position and SpotExchange '
            'with symbolic balance, fee, quantities, prices; after every operation z3 proves quote/base balances and position size equal '
            'to the cash-account model, no negative balance, no short, and the exact rejection rule (also after cancellations). '
            'H-STEP: one operation from an arbitrary symbolic pre-state under the representation invariant (flat states carry resting buys only; '
            'the reserved-sell sums equal the active sells) proves the model step and the invariant.',
            'floats as reals; Decimal helpers as exact +,- (their exactness is a clause of C17); histories up to length 4 exhaustive, '
            '5-6 targeted (cancel then resubmit); binary64 only for the resting-sell sums (relaxed-float model, violations confirmed by a binary64 witness)',
            TECH),
    'C05': ('DESIGN.md C05',
            'Bounded solver-based check: every operation skeleton up to length 4 (5 thorough) over submit/execute/cancel/repeated '
            'calls/cancel-all/pending-market flush/update_active_orders on up to 3 real orders, spot and futures, symbolic values: status '
            'history, no-effect of calls on final orders (z3 equality of every balance, position, margin-table and trade-table observable), '
            'active registry and one-trade-per-fill; plus the lifecycle invariants on every order of symbolic backtest sessions, where the '
            'registry reported at every before()/after() is proved equal to the accepted orders without a fill/cancel event.',
            'floats as reals; at most 3 orders; passive strategy attached (it cancels resting orders as the strategy layer does); sessions in cross '
            'and isolated margin (the simulator\'s forced-liquidation order included)',
            TECH),
    'C09': ('DESIGN.md C09',
            'Bounded solver-based check: liquidation/bankruptcy price lemmas on the real Position properties (symbolic entry, every '
            'integer leverage 2..125) and symbolic sessions through the real simulator with a monitor around _check_for_liquidations: '
            'forced close iff still open and low<=liq<=high, closing fill MARKET reduce-only at the bankruptcy price, wallet loses '
            'entry value/leverage plus fee, nothing left active, never in cross/spot.',
            'floats as reals (binary64 constants folded as in the code; wallet identity within 1e-9 relative); 2-3 symbolic candles; '
            'market entry with/without stop, two-point averaged entry',
            TECH),
    'C10': ('DESIGN.md C10',
            'Bounded solver-based check: the real Strategy/Broker/Sandbox inside research.backtest on symbolic candles with declared '
            'prices symbolic around the 0.015% boundary; per recorded order z3 proves declared (qty, price), the routing rule '
            '(MARKET iff near, LIMIT/STOP by side), reduce-only closing-side exits; per strategy step an injective map from active SL/TP '
            'orders to the latest (public) declaration and, while no exit of that kind has been filled in the trade, an order for every declared '
            'row; nothing active after close, entries cancelled iff should_cancel_entry().',
            'floats as reals (threshold is the exact double 0.00015, written like is_price_near); templates T1-T8m (T7: consecutive trades with equal hook-declared exits; T3h: unequal multi-row exits declared in a hook; T8m: a '
            'declaration that gains and loses a row); valid-side exits assumed; '
            '2-3 symbolic candles',
            TECH),
    'C06': ('DESIGN.md C06',
            'Bounded solver-based check: symbolic sessions through the real simulator; the fills of each path are folded through the '
            'average-cost model to the expected hook per fill, expected position size and expected closed trade per open..close cycle; z3 '
            'proves hooks, every ClosedTrade field and sum(trade.pnl) == wallet change (futures). Two genuine defects are listed in '
            'known_findings.json (oversize reduce-only exit, position flip) and reported as KNOWN-FINDING.',
            'floats as reals; templates T0-T3, T3o, T5, T8f with concrete quantities and symbolic prices/fee; 2-3 symbolic candles; '
            'weighted prices compared cross-multiplied; wallet identity within 1e-9 relative',
            TECH),
    'C07': ('DESIGN.md C07',
            'Bounded solver-based check: the aggregation kernels on symbolic windows and symbolic sessions in both simulators with a '
            'reading strategy; z3 proves every candle a strategy can read (complete or forming, every route timeframe, warm-up included) '
            'equal to the fold of its aligned window of the stored 1m candles, one candle per started window, and the stored 1m candles '
            'equal to the input up to the documented gap normalisation.',
            'floats as reals; windows up to 6; sessions up to 8 (11) minutes with at most 2 gapping opens, lengths that are not a multiple of the '
            'fast-mode step, route timeframes that are not multiples of each other (3m + 5m); timeframes 1m/3m/5m/15m; an exception raised '
            'by a session is a violation',
            TECH),
    'C20': ('DESIGN.md C20',
            'Bounded solver-based check: _fill_absent_candles with provided candles at symbolic integer minute offsets and symbolic OHLCV; '
            'CandlesState.add_candle / add_multiple_1m_candles with symbolic integer timestamps against a list model; research.backtest '
            'with a symbolic distance between the leading candles.',
            'interval length <= 5 (6), <= 3 (4) provided candles, <= 5 adds on an empty store and 1-2 adds on a store prefilled with 19-25 (up to 100) '
            'candles; provided candles sorted by time; an older unknown candle may '
            'be rejected as long as the store is unchanged',
            TECH),
    'C17': ('DESIGN.md C17',
            'Bounded solver-based check: the real sizing/rounding helpers executed on proxies - exact reals for the algebraic clauses '
            '(cost incl. fees, risk, one step below the quotient, acceptance by a fresh exchange, stop limiting, decimal helper bodies), a '
            'sound relaxation of binary64 (each op exact*(1+d), |d|<=2^-53) proving no overspend for fee>=1e-5, max_timeframe on a symbolic '
            'set; binary64-exact witnesses of two known 1-ulp findings are replayed each run and searched with QF_FP (cvc5) in the thorough tier.',
            'capital/price in [1e-6,1e6], fee in {0} U [1e-5,0.01], precision 0..8; binary64 claims only for size_to_qty (relaxed model) and the '
            'stored/searched witnesses; Decimal(str(x)) taken as the exact value of x',
            TECH + '; QF_FP witness search (cvc5) in the thorough tier'),
    'C19': ('DESIGN.md C19',
            'Bounded solver-based check: dna_to_hp/convert_number on symbolic genes (ordinals 40..119) with symbolic real bounds and on every '
            'letter with symbolic integer bounds; range, type, own-gene dependence, monotonicity, endpoints by z3; alphabet default compared; '
            'injection precedence through the real _prepare_routes/_init_objects with symbolic values.',
            'floats as reals (round-half-even over reals); DNAs of 1-3 genes; int parameters with integer bounds; an int and a float declaration with '
            'equal bounds decoded from one gene in both orders',
            TECH),
    'C18': ('DESIGN.md C18',
            'Bounded solver-based check: the real DynamicNumpyArray with its module-global numpy replaced by a shape-level shim (length + '
            'row function, numpy index/slice/out-of-range rules) so that every index, slice bound and batch length is a symbolic integer; '
            'after every operation of every enumerated skeleton z3 proves equal length, equal row at a fresh symbolic probe index, equal '
            'read results against a list model, and that list-valid operations do not raise.',
            'bucket sizes {2,4} quick / {1,2,3,4,10} thorough; skeleton depth <= 3 (4) plus targeted families up to 12 operations; the shim is '
            'validated against real numpy on random concrete histories each run and counterexamples are replayed on real numpy',
            TECH),
    'C12': ('DESIGN.md C12',
            'Bounded solver-based product check: the same symbolic single-symbol session runs through the normal and then the fast '
            'simulator on one path with shared symbols; on paths inside the precondition (at most one resting fill per trading-candle span, '
            'no liquidation) z3 proves executed orders (side, type, qty, price, fill minute), closed trades and final balances equal.',
            'floats as reals; trading timeframes 3m and 5m (15m data route), 2-3 symbolic minutes per session with range < 20 and exits >= 30 '
            'from the entry; templates T1, T3, T1h (an order priced from position.pnl read in the fill hook), T7d (entry decided by a data-route candle; '
            '3m + 5m routes); session lengths that are not a multiple of the trading timeframe; spot and futures',
            TECH),
    'C01': ('DESIGN.md C01',
            'Bounded solver-based product check: run A on X[:t]+flat tail and run B on X[:t]+Y[t:] (Y fresh symbols) on one path; a recording '
            'strategy and the Order wrappers log everything observable; z3 proves every log entry with time <= X[t].timestamp equal in both '
            'runs (by transitivity: equal for any two tails), in the step and the fast simulator.',
            'floats as reals; sessions of 3-10 minutes, 1-3 symbolic minutes in the prefix and in the tail; templates T1, T1tp, T5, T7; '
            'routes 1m, 3m, 5m, 1m+5m data, two symbols (traded, and data-only read by the strategy); warm-up 2-3 (both simulators); '
            'template with two resting exits in one minute',
            TECH),
    'C11': ('DESIGN.md C11',
            'Bounded solver-based check: every path runs in a freshly forked process; the probe call runs in a fresh process (a further '
            'fork of the pristine process) and again after another session A (symbolic fee/balance; other exchange name, spot/futures, '
            'leverage, routes, warm-up, fast mode, aborted by a hook exception or InsufficientMargin); z3 proves fills, trades (pnl, fee), '
            'account type and balances of the later probe equal to the fresh one, the values its strategy reads at every step (shared_vars '
            'counter, a non-sequential indicator, the candles helpers.slice_candles passes on) equal, and the arguments unmodified.',
            'floats as reals; 6-candle concrete sessions (one gapping open) with symbolic account parameters, a partial hyperparameters dict, step and '
            'fast probe; one prior session; metrics not observed here '
            '(C16); a fresh process is modelled by a fork of a process that imported jesse but never ran a session',
            TECH),
    'C13': ('DESIGN.md C13',
            'Bounded solver-based check: every public indicator with a sequential parameter that can run on proxy values (numpy shim + '
            'python source of the numba kernels) is executed on n symbolic candles and on every prefix on the same path; z3 proves every '
            'entry of the prefix series equal to the full series (NaN pattern concrete). Indicators that cannot be encoded or exceed the '
            'per-indicator budget are listed under not_encoded in the evidence and are not claimed. Six non-causal indicators are known findings.',
            'floats as reals; transcendental functions uninterpreted; 7 (10) candles; integer periods lowered by rank of their defaults to 2/3/4 and a '
            'second parameter set 3/4/5 (both parities); scipy 1-D max/min filters and numpy interp/mask indexing executed on proxies; the claim covers the '
            'indicators listed as encoded in the evidence of the run',
            TECH),
    'C14': ('DESIGN.md C14',
            'Bounded solver-based check: every encodable public indicator on n symbolic candles with the warm-up window configured to 6: '
            'the sequential result has n entries per field, its last entry equals the non-sequential result (n <= 6), and the non-sequential '
            'result on a longer input equals the sequential result on the trailing window (z3 equality).',
            'floats as reals; lengths 5 and 8 (4, 6, 9 thorough); periods lowered by rank to 2/3/4; None and NaN are the same observation; the claim '
            'covers the indicators listed as encoded',
            TECH),
    'C15': ('DESIGN.md C15',
            'Bounded solver-based differential check: the real indicator and a short textbook reference run on the same symbolic candles; '
            'z3 proves equality (within 1e-6 absolute, because implementations fold constants such as 1/period in binary64) for trailing-window '
            'indicators and EMA-type recurrences with the seed actually used, the recurrence step of Wilder-type smoothers, ma(matype) against '
            'the selected average, ranges, band ordering, channel enclosure, non-negativity, price homogeneity of the averages and scale invariance of the '
            'dimensionless oscillators (cci, rsi, willr, cmo, mfi) with a symbolic factor from 1e-10 to 1e8.',
            'floats as reals; 5-8 candles and periods 2-3 (2-5 and 10/30/60 on 64 candles for linear ones in thorough); cci / adx family / mfi '
            'only through their ranges',
            TECH),
    'C16': ('DESIGN.md C16',
            'Bounded solver-based check: the unmodified metrics.trades and ratio helpers run on real pandas with dtype=object columns holding '
            'proxies (real ClosedTrade objects built from symbolic fills, symbolic daily balances); z3 proves every identity of the statement; '
            'maximum drawdown against the standard definition that starts at the starting balance; equity samples are recomputed from the real account '
            'objects in 1-3 day sessions (exact-day length included; spot with two routes and a resting buy on the second) with symbolic starting '
            'balance, fee and quantity.',
            'floats as reals; pandas mean/std/sum/prod/min/max/cumprod and Expanding.max replaced for object dtype only by textbook definitions; '
            '1-3 (4) trades, 2-3 (5) daily balances; CAGR/Calmar/serenity (fractional powers) outside; one known finding (Sortino denominator)',
            TECH),
}

NOT_YET = {}


def main():
    props = [json.loads(l) for l in open(os.path.join(ROOT, 'properties.jsonl'))]
    checks = []
    na = []
    for p in props:
        pid = p['id']
        if pid in CLAIMED:
            ref, text, note, tech = CLAIMED[pid]
            checks.append({
                'property_id': pid,
                'quick_cmd': './check %s --tier quick' % pid,
                'thorough_cmd': './check %s --tier thorough' % pid,
                'evidence_file': 'evidence/%s.json' % pid,
                'replay_cmd_template': './check %s --replay {path}' % pid,
                'engine': 'symex',
                'level_claimed': {'category': 'other', 'text': text, 'design_ref': ref},
                'level_note': note,
                'technique': tech,
            })
        else:
            na.append({'property_id': pid, 'reason': NOT_YET.get(pid, 'check not built yet (work in progress; the design in DESIGN.md reaches it with the same technique)')})
    man = {
        'version': 1,
        'setup_cmd': 'bash setup.sh',
        'hooks': {
            'guard': 'JESSE_VERIF',
            'enable': 'none needed: all instrumentation is installed in memory by the harnesses (no hook commits in /repo)',
            'baseline_off_cmd': 'cd /repo && /venv/bin/python -m pytest -ra -q -p no:cacheprovider --timeout=900 --continue-on-collection-errors',
            'source_commits': [],
            'add_only': True,
        },
        'engines': [
            {'name': 'symex', 'path': 'vf/engine', 'serves_properties': sorted(CLAIMED),
             'kind_free_text': 'path-exploring symbolic executor for CPython code (proxy values building z3 terms, decision-prefix re-execution, 16 workers); counterexamples are replayed on the unpatched code'},
        ],
        'checks': checks,
        'not_applicable': na,
        'notes': 'exit 0 held / 1 reproduced violation / 3 inconclusive or harness error. See DESIGN.md.',
    }
    with open(os.path.join(ROOT, 'MANIFEST.json'), 'w') as f:
        json.dump(man, f, indent=1)
    print('claimed', len(checks), 'not_applicable', len(na))


if __name__ == '__main__':
    main()
